"""Canonical observation of library values. Never calls ==, repr or dumps of the object under test."""
from __future__ import annotations

import re
import struct as _struct

_ANON = re.compile(r"__anonymous_\d+__")


def observe(x, sizes=True, anon=False, depth=0):
    """Return a JSON-able canonical form. anon=True normalises anonymous type names."""
    from dissect.cstruct.types import BaseArray, Enum, Flag, Pointer, Structure, Void
    from dissect.cstruct.types.structure import UnionProxy

    if depth > 12:
        return ["DEEP"]
    if isinstance(x, UnionProxy):
        x = object.__getattribute__(x, "__target__")
    if isinstance(x, Structure):
        cls = type(x)
        name = cls.__name__
        if anon:
            name = _ANON.sub("__anon__", name)
        fields = []
        for f in cls.__fields__:
            fname = f._name
            try:
                v = getattr(x, fname)
            except AttributeError:
                fields.append([_ANON.sub("__anon__", fname) if anon else fname, ["MISSING"]])
                continue
            fields.append([_ANON.sub("__anon__", fname) if anon else fname, observe(v, sizes, anon, depth + 1)])
        out = ["S", name, fields]
        if sizes:
            sz = getattr(x, "_sizes", None)
            if isinstance(sz, dict):
                out.append(sorted((_ANON.sub("__anon__", k) if anon else k, int(v)) for k, v in sz.items()))
            else:
                out.append(None)
        return out
    if isinstance(x, Pointer):
        return ["P", int.__index__(x)]
    if isinstance(x, (Enum, Flag)):
        return ["E", type(x).__name__, int(x.value), x.name if isinstance(x, Enum) else None]
    if isinstance(x, bool):
        return ["B", x]
    if isinstance(x, int):
        return ["i", type(x).__name__, int.__index__(x)]
    if isinstance(x, float):
        return ["f", type(x).__name__, _struct.pack(">d", x).hex()]
    if isinstance(x, bytes):
        return ["b", type(x).__name__, bytes(x).hex()]
    if isinstance(x, str):
        return ["s", type(x).__name__, [ord(c) for c in x]]
    if isinstance(x, list):
        tn = type(x).__name__
        if anon:
            tn = _ANON.sub("__anon__", tn)
        return ["L", tn, [observe(e, sizes, anon, depth + 1) for e in x]]
    if isinstance(x, Void):
        return ["V"]
    if x is None:
        return ["N"]
    if isinstance(x, BaseArray):
        return ["A?", type(x).__name__]
    val = getattr(x, "value", None)
    if isinstance(val, (bytes, bytearray)):
        # a custom type (add_custom_type) whose instances carry their payload in a mutable attribute
        return ["C", type(x).__name__, bytes(val).hex()]
    return ["?", type(x).__name__]


def values_only(o):
    """Observation without recorded sizes and without the scalar wrapper type names (bit-field values are plain ints when
    parsed by one reader and typed ints in defaults; T(b"x") shortcuts yield plain bytes): field VALUES only."""
    if isinstance(o, list) and o:
        if o[0] == "S":
            return ["S", o[1], [[n, values_only(v)] for n, v in o[2]]]
        if o[0] in ("i", "f", "b", "s"):
            return [o[0], o[2]]
        if o[0] == "L":
            return ["L", [values_only(e) for e in o[2]]]
    return o


def exc_name(e: BaseException) -> str:
    return type(e).__name__


def layout_signature(t, anon=False, depth=0):
    """(size, alignment, dynamic, compiled, per field: name, type name, bits, offset, alignment, nested signature)."""
    from dissect.cstruct.types import BaseArray, Pointer, Structure

    def nm(s):
        return _ANON.sub("__anon__", s) if anon else s

    if depth > 8:
        return ["DEEP"]
    if isinstance(t, type) and issubclass(t, Structure):
        fields = []
        for f in t.__fields__:
            ft = f.type
            sub = layout_signature(ft, anon, depth + 1) if _is_struct_like(ft) else None
            fields.append([nm(f._name), nm(ft.__name__), f.bits, f.offset, f.alignment, sub])
        src = getattr(getattr(t, "_read", None), "__func__", None)
        src = getattr(src, "__source__", None)
        if src is not None and anon:
            src = _ANON.sub("__anon__", src)
        return ["struct", nm(t.__name__), t.size, t.alignment, t.dynamic, bool(t.__compiled__),
                sorted(nm(k) for k in t.fields), sorted(nm(k) for k in t.lookup), fields, src]
    if isinstance(t, type) and issubclass(t, BaseArray):
        return ["array", nm(t.__name__), t.size, t.alignment, t.dynamic, layout_signature(t.type, anon, depth + 1)]
    if isinstance(t, type) and issubclass(t, Pointer):
        return ["ptr", nm(t.__name__), t.size, t.alignment]
    return ["t", nm(getattr(t, "__name__", str(t))), getattr(t, "size", None), getattr(t, "alignment", None)]


def _is_struct_like(t):
    from dissect.cstruct.types import BaseArray, Structure

    if not isinstance(t, type):
        return False
    if issubclass(t, Structure):
        return True
    if issubclass(t, BaseArray):
        return _is_struct_like(t.type)
    return False
