"""Seeded generators: definition ASTs -> definition text, configurations, input bytes.

AST (JSON-able):
  defs = {"defines": [[name, int]], "enums": [enumdef], "structs": [structdef]}   (last struct is the root)
  enumdef = {"kind": "enum"|"flag", "name", "type", "members": [[name, None|str-expr]]}
  structdef = {"kind": "struct"|"union", "name": str|None, "fields": [field]}
  field = {"name": str|None, "type": str | None, "inline": structdef|None, "ptr": int, "dims": [int|str], "bits": int|None}
      dims entries: int (fixed), "" (null-terminated), "EOF", or an expression text
"""
from __future__ import annotations

import random

FIELD_PREFIXES = ["a", "b", "c", "x", "v", "len", "d", "fld", "_", "_"]
PY_KEYWORDS = ["class", "from", "in", "is", "def", "pass", "lambda", "global", "with", "import", "None", "not", "yield", "del"]
NESTED_TAGS = ["item", "hdr", "entry", "node"]
INT_PACKED = ["int8", "uint8", "int16", "uint16", "int32", "uint32", "int64", "uint64"]
INT_WIDE = ["int24", "uint24", "int48", "uint48", "int128", "uint128"]
FLOATS = ["float16", "float", "double"]
LEB = ["uleb128", "ileb128"]
SIZES = {"int8": 1, "uint8": 1, "int16": 2, "uint16": 2, "int32": 4, "uint32": 4, "int64": 8, "uint64": 8,
         "int24": 3, "uint24": 3, "int48": 6, "uint48": 6, "int128": 16, "uint128": 16,
         "float16": 2, "float": 4, "double": 8, "char": 1, "wchar": 2}
ALIASES = {"uint8": ["BYTE", "UCHAR", "uint8_t", "u1", "uchar", "__u8"], "uint16": ["WORD", "USHORT", "uint16_t", "u2", "unsigned short"],
           "uint32": ["DWORD", "ULONG", "uint32_t", "u4", "unsigned int", "uint", "unsigned long"],
           "uint64": ["QWORD", "ULONGLONG", "uint64_t", "u8", "unsigned long long"],
           "int8": ["INT8", "int8_t", "signed char", "__int8"], "int16": ["SHORT", "short", "int16_t", "signed short"],
           "int32": ["LONG", "int", "long", "int32_t", "INT32", "signed int"], "int64": ["LONGLONG", "long long", "int64_t", "LONG64"],
           "char": ["CHAR", "unsigned char"], "wchar": ["WCHAR", "wchar_t"], "uint128": ["OWORD", "uint128_t", "u16"],
           "int128": ["INT128", "__int128", "int128_t"]}


def gen_config(rng: random.Random, pointer_choices=("uint16", "uint32", "uint64")):
    return {"endian": rng.choice("<<>>!"), "pointer": rng.choice(pointer_choices),
            "align": rng.random() < 0.4, "compiled": rng.random() < 0.5}


def gen_swarm(rng: random.Random):
    """Per-run feature switches (swarm testing): each feature is on in roughly half the runs."""
    feats = ["wide", "float", "char", "wchar", "leb", "enum", "ptr", "array", "expr", "null", "nested", "union", "bits",
             "anon", "multidim", "alias", "dynunion", "structarray", "typedef", "nocompile", "anonenum"]
    on = {f: rng.random() < 0.55 for f in feats}
    on["eof"] = rng.random() < 0.15
    on["discard"] = rng.random() < 0.2
    on["kwnames"] = rng.random() < 0.2
    on["manyfields"] = rng.random() < 0.12
    return on


class DefGen:
    def __init__(self, rng: random.Random, swarm=None, max_depth=2, max_fields=7, allow_eof=True, fixed_only=False,
                 no_dynamic_union=False, plain_enums=False):
        self.plain_enums = plain_enums
        self.rng = rng
        self.sw = swarm if swarm is not None else gen_swarm(rng)
        self.max_depth = max_depth
        self.max_fields = max_fields
        self.allow_eof = allow_eof
        self.fixed_only = fixed_only
        self.no_dynamic_union = no_dynamic_union or fixed_only
        self.defines = []
        self.enums = []
        self.typedefs = []
        self.structs = []
        self.dynamic = {}  # struct name -> bool
        self.allint = {}  # struct name -> bool (usable as null-terminated element)
        self.has_eof = False
        self._n = 0

    def uid(self, p):
        self._n += 1
        return f"{p}{self._n}"

    # ---- pieces
    def scalar_pool(self):
        pool = list(INT_PACKED) * 2
        sw = self.sw
        if sw["wide"]:
            pool += INT_WIDE
        if sw["float"]:
            pool += FLOATS
        if sw["char"]:
            pool += ["char"] * 2
        if sw["wchar"]:
            pool += ["wchar"]
        if sw["leb"] and not self.fixed_only:
            pool += LEB
        return pool

    def scalar(self):
        t = self.rng.choice(self.scalar_pool())
        if self.sw.get("typedef") and self.rng.random() < 0.2:
            # a user typedef of the scalar (sometimes a chain of two): typedef uint32 T5; typedef T5 T6;
            have = [td for td in self.typedefs if td["base"] == t]
            if have and self.rng.random() < 0.6:
                return self.rng.choice(have)["name"], t
            nm = self.uid("T")
            target = t
            if have and self.rng.random() < 0.4:
                target = self.rng.choice(have)["name"]
            self.typedefs.append({"name": nm, "target": target, "base": t})
            return nm, t
        if self.sw["alias"] and t in ALIASES and self.rng.random() < 0.3:
            return self.rng.choice(ALIASES[t]), t
        return t, t

    def enum(self):
        named = [x for x in self.enums if x["name"] is not None]
        if named and self.rng.random() < 0.5:
            return self.rng.choice(named)
        rng = self.rng
        kind = rng.choice(["enum", "enum", "flag"])
        base = rng.choice(INT_PACKED + (INT_WIDE[:4] if self.sw["wide"] else []))
        if self.plain_enums:
            # callers that do not want C12/C03 matters in their way: no flags, no enums over byte-sliced integers
            kind = "enum"
            base = rng.choice(INT_PACKED)
        members = []
        prev = []
        for i in range(rng.randint(1, 4)):
            nm = f"{self.uid('M')}"
            r = rng.random()
            if r < 0.4:
                val = None
            elif r < 0.8 or not prev:
                val = str(rng.choice([0, 1, 2, 3, 4, 8, 16, 0x20, 100]))
            else:
                val = f"{rng.choice(prev)} {rng.choice(['+', '|', '*'])} {rng.randint(1, 3)}"
            members.append([nm, val])
            prev.append(nm)
        e = {"kind": kind, "name": self.uid("E"), "type": base, "members": members}
        self.enums.append(e)
        if self.sw.get("anonenum") and rng.random() < 0.3 and not any(x["name"] is None for x in self.enums):
            # an anonymous enum next to it: its members become constants of the cstruct object
            self.enums.append({"kind": rng.choice(["enum", "flag"]), "name": None, "type": rng.choice(INT_PACKED[1:]),
                               "members": [[self.uid("C"), None if rng.random() < 0.5 else str(rng.choice([1, 2, 4, 8]))] for _ in range(rng.randint(1, 3))]})
        return e

    def define(self):
        if self.defines and self.rng.random() < 0.6:
            return self.rng.choice(self.defines)[0]
        nm = self.uid("N")
        self.defines.append([nm, self.rng.randint(0, 4)])
        return nm

    def length_expr(self, int_fields):
        """An expression whose value stays small whatever the referenced field holds."""
        rng = self.rng
        forms = []
        if int_fields:
            f = rng.choice(int_fields)
            forms += [f"{f} & 3", f"({f} & 1) + 1", f"{f} % 3", f"({f} & 3) * 2 - 1", f"{f}&1|2", f"~{f} & 2", f"({f} >> 1) & 3"]
            if rng.random() < 0.25:
                # lengths that cannot be evaluated for some field values (division by zero with operands pending):
                # such a parse fails half-way and must leave nothing behind
                forms += [f"2 + 4 / ({f} & 3)", f"1 + 3 % ({f} & 3)", f"(2 | 1) * 6 / ({f} & 3)"] * 3
            if len(int_fields) > 1:
                g = rng.choice(int_fields)
                forms += [f"({f} & 1) + ({g} & 1)", f"{f} & {g} & 3"]
        forms += [f"{self.define()}", f"{self.define()} + 1", f"{self.define()} * 2 % 5"]
        if self.sw["alias"] and rng.random() < 0.3:
            # sizeof of a built-in synonym that is looked up BY NAME when the length is evaluated (alias -> name -> type)
            al = rng.choice(["BYTE", "WORD", "DWORD", "QWORD", "uint16_t", "LONG", "SHORT", "UCHAR", "u4", "INT8"])
            forms += [f"sizeof({al}) & 3", f"sizeof({al}) / 2", f"sizeof({al}) % 3 + 1"] * 2
            if int_fields:
                forms += [f"({rng.choice(int_fields)} & 1) * sizeof({al})", f"sizeof({al}) / 2 + ({rng.choice(int_fields)} & 1)"] * 2
        if self.structs and not self.dynamic[self.structs[-1]["name"]]:
            forms.append(f"sizeof({self.structs[-1]['name']}) & 3")
        return rng.choice(forms)

    # ---- structs
    def struct(self, depth=0, kind=None, name=None, root=False, ns=None):
        rng, sw = self.rng, self.sw
        # field names are local to a structure (a0, a1, ... / len0, ...): different structures routinely share field
        # names, which matters for everything the library caches per field count or per name. Members of an anonymous
        # nested structure are folded into the parent and therefore draw from the parent's namespace.
        folded = ns is not None
        if ns is None:
            ns = {"p": rng.choice(FIELD_PREFIXES), "n": 0}
            if sw.get("kwnames") and rng.random() < 0.5:
                ns["kw"] = rng.sample(PY_KEYWORDS, len(PY_KEYWORDS))

        def nf():
            ns["n"] += 1
            if ns.get("kw") and rng.random() < 0.3:
                return ns["kw"].pop()  # a C identifier that happens to be a reserved word of Python
            return f"{ns['p']}{ns['n'] - 1}"

        if kind is None:
            kind = "union" if (sw["union"] and rng.random() < 0.25) else "struct"
        name = name or self.uid("S" if kind == "struct" else "U")
        nfields = rng.randint(1, self.max_fields if kind == "struct" else 4)
        if sw.get("manyfields") and depth == 0 and kind == "struct" and rng.random() < 0.3:
            # boundary field counts: generated methods are built per field count (templates, argument lists, comparisons)
            nfields = rng.choice([0, 9, 10, 11, 16, 20, 31, 32, 33, 40]) if not root else rng.choice([9, 10, 11, 16, 20, 31, 32, 33, 40])
        fields = []
        int_fields = []  # names of earlier plain integer fields (expression operands)
        dynamic_seen = False
        all_int = True
        is_union = kind == "union"
        i = 0
        while i < nfields:
            i += 1
            last = i == nfields
            fname = nf()
            r = rng.random()
            f = {"name": fname, "type": None, "inline": None, "ptr": 0, "dims": [], "bits": None}
            fdyn = False
            # --- bit-field run (struct only, never after a dynamic field)
            if sw["bits"] and not is_union and not dynamic_seen and (r < 0.15 or (i == 1 and r < 0.3)):
                if sw["enum"] and rng.random() < 0.25:
                    e = self.enum()
                    base, tname = e["type"], e["name"]
                    if base not in INT_PACKED:
                        base = tname = rng.choice(INT_PACKED)
                elif sw["char"] and rng.random() < 0.12:
                    base = tname = "char"  # a char storage unit is allowed for bit-fields too
                else:
                    base = tname = rng.choice(INT_PACKED)
                total = SIZES[base] * 8
                left = total
                k = rng.randint(1, 4)
                for j in range(k):
                    if left <= 0:
                        break
                    w = rng.randint(1, min(left, 12))
                    if j == k - 1 and rng.random() < 0.5:
                        w = left
                    fields.append({"name": nf(), "type": tname, "inline": None, "ptr": 0, "dims": [], "bits": w})
                    left -= w
                # a plain field must follow so that the next run starts a new unit
                f["type"] = rng.choice(INT_PACKED)
                int_fields.append(fname)
                fields.append(f)
                continue
            # --- nested struct / union
            if sw["nested"] and depth < self.max_depth and r < 0.32:
                sub_kind = "union" if (sw["union"] and rng.random() < 0.35) else "struct"
                if rng.random() < 0.5 and self.structs:
                    # reference to an earlier top-level struct
                    cands = [s for s in self.structs if not (is_union and self.no_dynamic_union and self.dynamic[s["name"]])]
                    if self.fixed_only:
                        cands = [s for s in cands if not self.dynamic[s["name"]]]
                    if cands:
                        s = rng.choice(cands)
                        f["type"] = ("struct " if rng.random() < 0.2 and s["kind"] == "struct" else "") + s["name"]
                        fdyn = self.dynamic[s["name"]]
                        sub_allint = self.allint[s["name"]]
                        if sw["ptr"] and rng.random() < 0.2:
                            # a pointer to that structure instead of the structure itself
                            f["ptr"] = 1
                            all_int = False
                            fields.append(f)
                            continue
                        if sw["structarray"] and rng.random() < 0.5:
                            if not fdyn:
                                f["dims"] = [rng.randint(0, 3)]
                                if sw["null"] and sub_allint and not self.fixed_only and rng.random() < 0.3:
                                    f["dims"] = [""]
                                    fdyn = True
                        all_int = all_int and sub_allint and not f["dims"]
                        fields.append(f)
                        dynamic_seen = dynamic_seen or fdyn
                        continue
                anon = sw["anon"] and rng.random() < 0.35
                sub = self.struct(depth + 1, sub_kind, name=self.uid("n"), ns=ns if anon else None)
                subname = sub["name"]
                self.structs.remove(sub)  # inline, not top level
                fdyn = self.dynamic.pop(subname)
                sub_allint = self.allint.pop(subname)
                inline = dict(sub)
                # nested tags come from a small pool: unrelated structures often declare their own 'struct item {..}'
                used_tags = {x["inline"]["name"] for x in fields if x["inline"] is not None}
                free = [t for t in NESTED_TAGS if t not in used_tags]
                # an anonymous member is known by its type name, so it keeps the generated (unique) anonymous type
                inline["name"] = None if (anon or not free or rng.random() < 0.6) else rng.choice(free)
                f["inline"] = inline
                if anon:
                    f["name"] = None
                if is_union and fdyn and self.no_dynamic_union:
                    continue
                all_int = all_int and sub_allint
                fields.append(f)
                dynamic_seen = dynamic_seen or fdyn
                continue
            # --- discard field: '_' is the one field name that may repeat within a structure (all of one type here: the
            # library keeps a single attribute '_' per instance, which is written back for every such field). Not inside
            # anonymous members: a '_' folded into a parent that has its own '_' makes the library fail at load time.
            if sw.get("discard") and not is_union and not folded and rng.random() < 0.22:
                f["name"] = "_"
                f["type"] = ns.setdefault("dt", rng.choice(["uint8", "uint8", "uint16", "uint32", "char", "int64"]))
                all_int = all_int and ns["dt"] != "char"
                fields.append(f)
                continue
            # --- enum
            is_enum = False
            if sw["enum"] and r < 0.42:
                e = self.enum()
                f["type"] = e["name"]
                tname = e["type"]
                is_enum = True
            else:
                f["type"], tname = self.scalar()
            if tname in LEB:
                fdyn = True
            # --- pointer
            if sw["ptr"] and rng.random() < 0.12:
                f["ptr"] = 1 if rng.random() < 0.8 else 2
                fdyn = False
                tname = "ptr"
            # --- array
            if sw["array"] and rng.random() < 0.35:
                dims = []
                r2 = rng.random()
                if r2 < 0.45:
                    dims = [rng.randint(0, 4)]
                elif r2 < 0.65 and sw["expr"] and not self.fixed_only:
                    dims = [self.length_expr(int_fields)]
                    fdyn = True
                elif r2 < 0.8 and sw["null"] and not self.fixed_only and tname not in FLOATS and (tname != "ptr" or rng.random() < 0.15):
                    # (null-terminated arrays of POINTERS are declared too, rarely: the shipped library cannot read them -
                    # such cases are discarded for lack of an accepted input - but a tree that can must read them properly)
                    dims = [""]
                    fdyn = True
                elif r2 < 0.9 and sw["eof"] and self.allow_eof and root and last and not is_union and not self.fixed_only:
                    dims = ["EOF"]
                    fdyn = True
                    self.has_eof = True
                else:
                    dims = [rng.randint(1, 3)]
                if sw["multidim"] and sw["expr"] and not self.fixed_only and rng.random() < 0.12 and tname not in LEB and tname != "ptr":
                    # rows of a length given by an expression: T x[2][n & 3]
                    dims = [rng.randint(2, 3), self.length_expr(int_fields)]
                    fdyn = True
                elif sw["multidim"] and rng.random() < 0.25 and not fdyn:
                    dims = [rng.randint(1, 2)] + dims
                elif sw["multidim"] and rng.random() < 0.1 and dims and dims[0] != "" and tname not in LEB:
                    # dynamic outer dimension over fixed inner
                    dims = dims[:1] + [rng.randint(1, 2)]
                f["dims"] = dims
            if is_union and fdyn and self.no_dynamic_union:
                i -= 1
                if rng.random() < 0.2:
                    i += 1
                continue
            if is_union and fdyn and not sw["dynunion"]:
                i -= 1
                if rng.random() < 0.2:
                    i += 1
                continue
            if not f["dims"] and not f["ptr"] and not is_enum and tname in INT_PACKED + INT_WIDE:
                int_fields.append(fname)
            if f["dims"] or f["ptr"] or tname in FLOATS or tname in ("char", "wchar"):
                all_int = False
            fields.append(f)
            dynamic_seen = dynamic_seen or fdyn
        if not fields and nfields:
            fields.append({"name": nf(), "type": "uint8", "inline": None, "ptr": 0, "dims": [], "bits": None})
        sd = {"kind": kind, "name": name, "fields": fields}
        self.structs.append(sd)
        self.dynamic[name] = dynamic_seen
        self.allint[name] = all_int and not dynamic_seen and kind == "struct"
        return sd

    def build(self, n_top=None):
        n_top = n_top or self.rng.randint(1, 3)
        import copy as _copy

        for k in range(n_top):
            self.struct(depth=0, root=(k == n_top - 1))
            if self.rng.random() < 0.2:
                # a twin: another top-level structure with exactly the same members under another name
                src = self.rng.choice(self.structs)
                twin = _copy.deepcopy(src)
                twin["name"] = self.uid("S" if twin["kind"] == "struct" else "U")
                pos = len(self.structs) if k < n_top - 1 else len(self.structs) - 1
                self.structs.insert(pos, twin)
                self.dynamic[twin["name"]] = self.dynamic[src["name"]]
                self.allint[twin["name"]] = self.allint[src["name"]]
        if self.sw.get("nocompile"):
            for sd in self.structs:
                if self.rng.random() < 0.25:
                    sd["nocompile"] = True  # '#[nocompile]' in front of this top-level definition
        return {"defines": self.defines, "enums": self.enums, "typedefs": self.typedefs, "structs": self.structs}


# ---------------------------------------------------------------- rendering

def render_field(f, ind="  "):
    if f["inline"] is not None:
        body = render_struct_body(f["inline"], ind + "  ")
        head = f["inline"]["kind"] + (f" {f['inline']['name']}" if f["inline"]["name"] else "")
        s = f"{ind}{head} {{\n{body}{ind}}}"
        if f["name"] is not None:
            s += f" {f['name']}"
            s += "".join(f"[{d}]" for d in f["dims"])
        return s + ";\n"
    s = f"{ind}{f['type']} {'*' * f['ptr']}{f['name']}"
    if f["bits"]:
        s += f" : {f['bits']}"
    s += "".join(f"[{d}]" for d in f["dims"])
    return s + ";\n"


def render_struct_body(sd, ind="  "):
    return "".join(render_field(f, ind) for f in sd["fields"])


def render_struct(sd):
    flag = "#[nocompile]\n" if sd.get("nocompile") else ""
    return f"{flag}{sd['kind']} {sd['name']} {{\n{render_struct_body(sd)}}};\n"


def render_enum(e):
    ms = ", ".join(m if v is None else f"{m} = {v}" for m, v in e["members"])
    if e["name"] is None:
        return f"{e['kind']} : {e['type']} {{ {ms} }};\n"
    return f"{e['kind']} {e['name']} : {e['type']} {{ {ms} }};\n"


def render(defs):
    out = []
    for n, v in defs["defines"]:
        out.append(f"#define {n} {v}\n")
    for e in defs["enums"]:
        out.append(render_enum(e))
    for td in defs.get("typedefs", []):
        out.append(f"typedef {td['target']} {td['name']};\n")
    for s in defs["structs"]:
        out.append(render_struct(s))
    return "".join(out)


def make_cs(cfg, defs_text=None):
    from dissect.cstruct import cstruct

    cs = cstruct(endian=cfg["endian"], pointer=cfg["pointer"])
    if defs_text is not None:
        cs.load(defs_text, compiled=cfg["compiled"], align=cfg["align"])
    return cs


# ---------------------------------------------------------------- data

def has_null_terminated(defs) -> bool:
    def walk(sd):
        for f in sd["fields"]:
            if "" in f["dims"]:
                return True
            if f["inline"] is not None and walk(f["inline"]):
                return True
        return False
    return any(walk(s) for s in defs["structs"])


def gen_bytes(rng: random.Random, n: int, long_runs: bool = False) -> bytes:
    """Biased bytes: small values dominate so lengths stay small, terminators appear and LEB128 ends."""
    mode = rng.random()
    if long_runs and rng.random() < 0.5:
        mode = 0.99
    out = bytearray()
    for _ in range(n):
        r = rng.random()
        if mode > 0.93:
            # long runs without terminators: null-terminated strings/arrays of 64+ elements, block-wise scanners
            out.append(0 if r < 0.006 else rng.randrange(0x21, 0x7F))
        elif mode < 0.15:
            out.append(rng.randrange(256))
        elif r < 0.35:
            out.append(0)
        elif r < 0.7:
            out.append(rng.choice((1, 2, 3, 4, 5, 7, 8)))
        elif r < 0.85:
            out.append(rng.randrange(0x20, 0x7F))
        else:
            out.append(rng.randrange(256))
    return bytes(out)


INTERNAL_ERRORS = ("UnboundLocalError", "AttributeError", "NameError", "TypeError", "KeyError", "IndexError", "error", "AssertionError")


def accepted_input(rng, parse, tries=4, start_len=48, stats=None, long_runs=False):
    """Find bytes the fault-free reference parse accepts. parse(data) -> consumed length or raises.
    Returns (data, consumed) or None. Inputs the reference rejects are outside the domain of the differential checks; when
    the rejection looks like an internal error rather than bad data it is counted as a reach probe so that it shows in the
    evidence instead of silently shrinking the domain."""
    n = start_len
    for _ in range(tries):
        data = gen_bytes(rng, n, long_runs)
        try:
            used = parse(data)
            return data, used
        except EOFError:
            n *= 2
        except Exception as e:  # noqa: BLE001
            if stats is not None and type(e).__name__ in INTERNAL_ERRORS:
                stats.count("probe.reference_parse_internal_error_" + type(e).__name__)
            n = start_len
    return None


def shape_digest(defs):
    """Order-preserving structural digest of a definition set with names erased."""
    def fld(f):
        return (f["type"] if f["inline"] is None and not str(f["type"]).startswith(("E", "S", "U", "struct")) else "T",
                f["ptr"], tuple("x" if isinstance(d, str) and d not in ("", "EOF") else d for d in f["dims"]), f["bits"],
                st(f["inline"]) if f["inline"] else None, f["name"] is None)

    def st(s):
        return (s["kind"], tuple(fld(f) for f in s["fields"]))

    return repr(tuple(st(s) for s in defs["structs"]))


def shrink_defs(defs):
    """Candidate reductions of a definition set: drop a top-level struct (not the root), drop a field,
    simplify a field (no dims, no ptr, plain type), drop enum members/defines."""
    import copy

    structs = defs["structs"]
    for i in range(len(structs) - 1):
        d = copy.deepcopy(defs)
        del d["structs"][i]
        yield d

    def walk(sd_path):
        sd = defs
        for p in sd_path:
            sd = sd[p]
        return sd

    def field_paths(sd, path):
        for j, f in enumerate(sd["fields"]):
            yield path + ["fields", j]
            if f["inline"] is not None:
                yield from field_paths(f["inline"], path + ["fields", j, "inline"])

    for si in range(len(structs)):
        for fp in list(field_paths(structs[si], ["structs", si])):
            # delete field
            d = copy.deepcopy(defs)
            parent = d
            for p in fp[:-1]:
                parent = parent[p]
            if len(parent) > 1:
                del parent[fp[-1]]
                yield d
            f = walk(fp)
            if f["dims"]:
                d = copy.deepcopy(defs)
                g = d
                for p in fp:
                    g = g[p]
                g["dims"] = g["dims"][1:]
                yield d
            if f["ptr"]:
                d = copy.deepcopy(defs)
                g = d
                for p in fp:
                    g = g[p]
                g["ptr"] = 0
                yield d
            if f["inline"] is None and f["type"] != "uint8" and not f["bits"]:
                d = copy.deepcopy(defs)
                g = d
                for p in fp:
                    g = g[p]
                g["type"] = "uint8"
                yield d
    for i in range(len(defs["enums"])):
        d = copy.deepcopy(defs)
        del d["enums"][i]
        yield d
    for i in range(len(defs["defines"])):
        d = copy.deepcopy(defs)
        del d["defines"][i]
        yield d


# ---------------------------------------------------------------- AST queries (used by op generators; never by oracles
# that claim to check layout)

CANON = {a: t for t, al in ALIASES.items() for a in al}
INT_RANGE = {}
for _t, _s in SIZES.items():
    if _t.startswith("uint"):
        INT_RANGE[_t] = (0, (1 << (8 * _s)) - 1)
    elif _t.startswith("int"):
        INT_RANGE[_t] = (-(1 << (8 * _s - 1)), (1 << (8 * _s - 1)) - 1)


def classify(defs, f):
    """-> (kind, base) for a field ignoring ptr/dims/bits: kind in int|float|char|wchar|leb|enum|struct|union."""
    if f["inline"] is not None:
        return f["inline"]["kind"], f["inline"]
    t = f["type"]
    if t.startswith("struct "):
        t = t[7:]
    for td in defs.get("typedefs", []):
        if td["name"] == t:
            t = td["base"]
            break
    t = CANON.get(t, t)
    for e in defs["enums"]:
        if e["name"] is not None and e["name"] == t:
            return "enum", e
    for s in defs["structs"]:
        if s["name"] == t:
            return s["kind"], s
    if t in INT_RANGE:
        return "int", t
    if t in FLOATS:
        return "float", t
    if t in LEB:
        return "leb", t
    return t, t  # char / wchar


def leaf_paths(defs, sd, prefix=(), depth=0, through_union=False):
    """Yield assignable locations inside struct `sd`: dicts {path, kind, base, dims, ptr, bits, in_union}."""
    if depth > 4:
        return
    for f in sd["fields"]:
        kind, base = classify(defs, f)
        name = f["name"]
        if name is None:
            # anonymous member: its fields are folded into the parent
            if kind in ("struct", "union"):
                yield from leaf_paths(defs, base, prefix, depth + 1, through_union or kind == "union" or sd["kind"] == "union")
            continue
        if name == "_":
            continue  # discard fields are not assignable locations (one attribute stands for all of them)
        path = prefix + (name,)
        info = {"path": list(path), "kind": kind, "base": base if isinstance(base, str) else base.get("name"),
                "dims": f["dims"], "ptr": f["ptr"], "bits": f["bits"], "in_union": through_union or sd["kind"] == "union",
                "base_sd": base if kind in ("struct", "union") else None}
        yield info
        if kind in ("struct", "union") and not f["dims"] and not f["ptr"]:
            yield from leaf_paths(defs, base, path, depth + 1, through_union or kind == "union" or sd["kind"] == "union")


def gen_value(rng, defs, info):
    """A JSON-able value spec fitting the location `info` (always inside the field's range)."""
    kind = info["kind"]
    if info["ptr"]:
        base = ("ptr", None)
    if info["dims"]:
        return None
    if info["ptr"]:
        return {"k": "int", "v": rng.choice([0, 1, 2, 0x10, 0xFF])}
    if kind == "int":
        lo, hi = INT_RANGE[info["base"]]
        if info["bits"]:
            lo, hi = 0, (1 << info["bits"]) - 1
        if rng.random() < 0.15 and not info["bits"]:
            # an in-range value that is an instance of ANOTHER integer type of the library (e.g. a parsed uint32 assigned
            # to a uint16 field): a value like any other
            v = rng.choice([0, 1, 2, 100, 127])
            return {"k": "typed", "t": rng.choice(["uint8", "uint16", "uint32", "int32", "uint64", "int8", "int64"]), "v": v}
        return {"k": "int", "v": rng.choice([lo, hi, 0, 1, rng.randint(lo, hi), rng.randint(max(lo, -100), min(hi, 100))])}
    if kind == "leb":
        return {"k": "int", "v": rng.choice([0, 1, 127, 128, 300, 2 ** 20]) * (-1 if info["base"] == "ileb128" and rng.random() < 0.4 else 1)}
    if kind == "float":
        return {"k": "float", "v": rng.choice([0.0, 1.0, -2.5, 0.5, 1024.0])}
    if kind == "char":
        return {"k": "bytes", "hex": bytes([rng.choice([0, 0x41, 0x7A, 0xFF])]).hex()}
    if kind == "wchar":
        return {"k": "str", "s": rng.choice(["\x00", "A", "é", "中"])}
    if kind == "enum":
        e = next(e for e in defs["enums"] if e["name"] == info["base"])
        lo, hi = INT_RANGE[e["type"]]
        if info["bits"]:
            lo, hi = 0, (1 << info["bits"]) - 1
        return {"k": "enum", "name": e["name"], "v": rng.choice([max(lo, 0), 1, 2, min(hi, 100), rng.randint(max(lo, 0), min(hi, 255))])}
    return None


def make_value(cs, spec):
    k = spec["k"]
    if k == "int":
        return spec["v"]
    if k == "float":
        return spec["v"]
    if k == "bytes":
        return bytes.fromhex(spec["hex"])
    if k == "str":
        return spec["s"]
    if k == "enum":
        return getattr(cs, spec["name"])(spec["v"])
    if k == "typed":
        return getattr(cs, spec["t"])(spec["v"])
    if k == "none":
        return None
    raise ValueError(k)
