"""Common machinery: library import from VERIF_REPO, seed derivation, per-run stats, world reset,
batch driver over a fork pool, shrinking, replay files, known findings, evidence."""
from __future__ import annotations

import faulthandler
import hashlib
import json
import os
import random
import subprocess
import sys
import time
import traceback
from collections import Counter
from concurrent.futures import ProcessPoolExecutor, as_completed
from multiprocessing import get_context

if hasattr(sys, "set_int_max_str_digits"):
    sys.set_int_max_str_digits(0)  # a broken evaluator may produce enormous integers; reporting them must not fail

VERIF = os.path.dirname(os.path.dirname(os.path.abspath(__file__)))
REPO = os.path.realpath(os.environ.get("VERIF_REPO", "/repo"))


def import_library():
    """Import dissect.cstruct from VERIF_REPO's working tree (never from site-packages)."""
    if REPO not in sys.path:
        sys.path.insert(0, REPO)
    import dissect.cstruct as m

    f = os.path.realpath(m.__file__)
    if not f.startswith(REPO + os.sep):
        raise RuntimeError(f"dissect.cstruct imported from {f}, expected under {REPO}")
    return m


def reset_world():
    """Bring every process-global cache of the library to its cold state, so a run is a pure function of its case."""
    from dissect.cstruct.types import packed, structure

    cache_knobs(None)
    for mod, name in [(packed, "_struct")] + [(structure, n) for n in ("_make_structure__init__", "_make_union__init__", "_make__eq__",
                                                                        "_make__bool__", "_make__hash__")]:
        clear = getattr(getattr(mod, name, None), "cache_clear", None)
        if clear is not None:
            clear()


_KNOBS = None


def cache_knobs(size):
    """Tuning-knob randomisation (cache capacities): every module-level functools.lru_cache of the library is re-created
    with capacity `size`, and every module-level integer constant whose name contains CACHE is set to `size`; None
    restores the shipped values. Caches are transparent by definition, so any capacity must behave the same - a capacity
    too large for the eviction path to run is the classic blind spot. Nothing in /repo is edited (module attributes only)."""
    import functools

    global _KNOBS
    if _KNOBS is None:
        _KNOBS = []
        for mname, mod in sorted(sys.modules.items()):
            if mod is None or not mname.startswith("dissect.cstruct"):
                continue
            for k, v in sorted(vars(mod).items(), key=lambda kv: kv[0]):
                if isinstance(v, functools._lru_cache_wrapper):
                    _KNOBS.append((mod, k, v, "lru"))
                elif isinstance(v, int) and not isinstance(v, bool) and "CACHE" in k.upper() and v > 8:
                    _KNOBS.append((mod, k, v, "int"))
    for mod, k, v, kind in _KNOBS:
        if size is None:
            setattr(mod, k, v)
        elif kind == "lru":
            setattr(mod, k, functools.lru_cache(size)(v.__wrapped__))
        else:
            setattr(mod, k, size)
    return len(_KNOBS)


def h8(*parts) -> bytes:
    return hashlib.blake2b(repr(parts).encode(), digest_size=8).digest()


def run_seed(seed: int, prop: str, idx: int) -> int:
    return int.from_bytes(hashlib.blake2b(f"{seed}:{prop}:{idx}".encode(), digest_size=8).digest(), "big")


class Discard(Exception):
    """The generated case is outside the property's domain (counted, never reported)."""

    def __init__(self, reason: str):
        super().__init__(reason)
        self.reason = reason


class Violation(Exception):
    def __init__(self, oracle: str, kind: str, detail: str = "", **extra):
        super().__init__(f"{oracle}/{kind}: {detail}")
        self.info = {"oracle": oracle, "kind": kind, "detail": detail[:2000], **extra}


class Stats:
    """Per-chunk collector. Counters are sums; `distinct` is a set of 8-byte digests (union across workers)."""

    def __init__(self, want_digest: bool = False):
        self.c = Counter()
        self.distinct = set()
        self.distinct2 = set()
        self.samples = []
        self.want_digest = want_digest
        self._h = None

    def count(self, name: str, n: int = 1):
        self.c[name] += n

    def key(self, *parts):
        self.distinct.add(h8(*parts))

    def key2(self, *parts):
        self.distinct2.add(h8(*parts))

    # event log digest (determinism self-test); never draws randomness, never reads a clock
    def begin_run(self):
        self._h = hashlib.blake2b(digest_size=8) if self.want_digest else None

    def log(self, *parts):
        if self._h is not None:
            self._h.update(repr(parts).encode())

    def end_run(self):
        return self._h.hexdigest() if self._h is not None else None


def execute(mod, case, stats: Stats):
    """Run one case. Returns None, ('discard', reason) or ('violation', info)."""
    if isinstance(case, dict) and "__sequence__" in case:
        # a violation that only shows after earlier runs in the same process (hidden process-global state in the
        # library): replay the whole run sequence of the chunk up to the failing run
        q = case["__sequence__"]
        r = None
        for idx in range(q["start"], q["end"] + 1):
            c = mod.gen_case(random.Random(run_seed(q["seed"], q["prop"], idx)), q["tier"])
            r = execute(mod, c, stats)
        return r
    reset_world()
    try:
        mod.run_case(case, stats)
    except Discard as d:
        return ("discard", d.reason)
    except Violation as v:
        return ("violation", v.info)
    return None


def execute_forked(mod, case):
    """Run one case in a child forked from this process (whose library state is never touched), so that candidate
    executions cannot pollute each other through process-global state. Returns (result, case-as-filled-in)."""
    r, w = os.pipe()
    pid = os.fork()
    if pid == 0:
        os.close(r)
        try:
            faulthandler.dump_traceback_later(300, exit=True)
            res = execute(mod, case, Stats())
            payload = json.dumps({"r": res, "case": case})
        except BaseException as e:  # noqa: BLE001
            payload = json.dumps({"err": repr(e)})
        with os.fdopen(w, "wb") as f:
            f.write(payload.encode())
        os._exit(0)
    os.close(w)
    with os.fdopen(r, "rb") as f:
        data = f.read()
    os.waitpid(pid, 0)
    if not data:
        return ("error", "child died"), case
    d = json.loads(data)
    if "err" in d:
        return ("error", d["err"]), case
    res = d["r"]
    if res is not None:
        res = (res[0], res[1])
    return res, d["case"]


def fork_call(fn, *args):
    """Call fn(*args) in a forked child and return its (picklable) result, or None if the child died."""
    import pickle

    r, w = os.pipe()
    pid = os.fork()
    if pid == 0:
        os.close(r)
        try:
            payload = pickle.dumps(("ok", fn(*args)))
        except BaseException as e:  # noqa: BLE001
            payload = pickle.dumps(("err", repr(e) + "\n" + traceback.format_exc()))
        with os.fdopen(w, "wb") as f:
            f.write(payload)
        os._exit(0)
    os.close(w)
    with os.fdopen(r, "rb") as f:
        data = f.read()
    os.waitpid(pid, 0)
    if not data:
        return None
    tag, val = pickle.loads(data)
    if tag == "err":
        raise RuntimeError("forked call failed: " + val)
    return val


_KNOWN_CACHE = {}


def _is_known(mod, prop, case, vinfo):
    """Does this violation belong to a finding recorded (status 'known') in known_findings.json?"""
    if not hasattr(mod, "known_match"):
        return False
    if prop not in _KNOWN_CACHE:
        _KNOWN_CACHE[prop] = [e for e in load_known(prop) if e["status"] == "known"]
    return any(mod.known_match(case, vinfo, e.get("match", {})) for e in _KNOWN_CACHE[prop])


def _one_run(mod, prop, tier, rs, idx, want_digest, stats=None):
    own = stats is None
    if own:
        stats = Stats(want_digest)
    rng = random.Random(rs)
    stats.begin_run()
    case = mod.gen_case(rng, tier)
    stats.log("case", json.dumps(case, sort_keys=True))
    r = execute(mod, case, stats)
    stats.count("runs")
    violations = []
    if r is None:
        stats.count("runs_ok")
        if len(stats.samples) < 2 and rng.random() < 0.2:
            stats.samples.append(case)
    elif r[0] == "discard":
        stats.count("discard." + r[1])
    elif _is_known(mod, prop, case, r[1]):
        stats.count("runs_known_finding")
    else:
        stats.count("runs_violating")
        violations.append({"run_index": idx, "run_seed": rs, "case": case, "violation": r[1]})
    stats.log("result", r)
    d = stats.end_run()
    out = {"violations": violations, "digests": {idx: d} if d is not None else {}}
    if own:
        out.update(c=stats.c, distinct=stats.distinct, distinct2=stats.distinct2, samples=stats.samples)
    return out


def _chunk(args):
    """Pool task. The work itself happens in a child forked from this worker, so the worker stays pristine and the
    memory of a chunk is returned to the system (the library leaks every loaded structure class: generated __init__
    code objects hold the default values, and code objects are invisible to the cycle collector)."""
    res = fork_call(_chunk_body, args)
    if res is not None:
        return res
    # The child died: crash, out of memory or the 300 s watchdog (a hang inside the library). Find the run that does it by
    # executing the runs of the chunk one by one, each in its own child with a 120 s watchdog; a run that does not come
    # back is reported as a violation of class liveness/run_did_not_finish with its (deterministic) case description.
    prop, tier, seed, start, n, want_digest, _ = args
    import_library()
    mod = load_prop(prop)
    agg = dict(c=Counter(), distinct=set(), distinct2=set(), samples=[], violations=[], digests={}, done=0)
    dead = 0
    for idx in range(start, start + n):
        one = fork_call(_chunk_body, (prop, tier, seed, idx, 1, want_digest, None, 120))
        if one is None:
            dead += 1
            rs = run_seed(seed, prop, idx)
            case = mod.gen_case(random.Random(rs), tier)
            agg["c"]["runs"] += 1
            agg["c"]["runs_violating"] += 1
            agg["violations"].append({"run_index": idx, "run_seed": rs, "case": case, "violation": {
                "oracle": "liveness", "kind": "run_did_not_finish",
                "detail": "the run crashed its process or did not finish within 120 s (runs of this check normally take milliseconds)"}})
            agg["done"] += 1
            if dead >= 2:
                break
            continue
        agg["c"].update(one["c"])
        agg["distinct"] |= one["distinct"]
        agg["distinct2"] |= one["distinct2"]
        agg["violations"].extend(one["violations"])
        agg["digests"].update(one["digests"])
        agg["done"] += one["done"]
    if not dead:
        raise RuntimeError(f"chunk starting at run {start} died in its child process but every single run of it finishes "
                           "(out of memory or machine overload?)")
    return agg


def _chunk_body(args):
    prop, tier, seed, start, n, want_digest, budget_deadline = args[:7]
    faulthandler.dump_traceback_later(args[7] if len(args) > 7 else 300, exit=True)
    import_library()
    mod = load_prop(prop)
    stats = Stats(want_digest)
    violations = []
    digests = {}
    done = 0
    fork_per_run = getattr(mod, "FORK_PER_RUN", False)
    for idx in range(start, start + n):
        rs = run_seed(seed, prop, idx)
        if fork_per_run:
            # this worker never executes library code itself: every run happens in a forked child, so hidden
            # process-global state in the library cannot leak from one run into the next
            sub = fork_call(_one_run, mod, prop, tier, rs, idx, want_digest)
            if sub is None:
                raise RuntimeError(f"run {idx} died in its child process")
            stats.c.update(sub["c"])
            stats.distinct |= sub["distinct"]
            stats.distinct2 |= sub["distinct2"]
            if len(stats.samples) < 2:
                stats.samples.extend(sub["samples"])
            if len(violations) < 3:
                violations.extend(sub["violations"])
            digests.update(sub["digests"])
        else:
            sub = _one_run(mod, prop, tier, rs, idx, want_digest, stats)
            if len(violations) < 3:
                violations.extend(sub["violations"])
            digests.update(sub["digests"])
        done += 1
    faulthandler.cancel_dump_traceback_later()
    return dict(c=stats.c, distinct=stats.distinct, distinct2=stats.distinct2, samples=stats.samples,
                violations=violations, digests=digests, done=done)


def load_prop(prop: str):
    import importlib

    sys.path.insert(0, VERIF) if VERIF not in sys.path else None
    return importlib.import_module(f"sim.props.{prop.lower()}")


def class_key(v):
    return (v["oracle"], v["kind"])


def shrink(mod, case, vinfo, max_exec=400, max_s=30.0):
    """Greedy delta-debugging over module-provided candidate reductions; keeps a candidate only if the same
    violation class still fails."""
    if not hasattr(mod, "shrink_candidates") or vinfo.get("oracle") == "liveness":
        return case, vinfo, 0
    key = class_key(vinfo)
    t0 = time.monotonic()
    execs = 0
    improved = True
    while improved and execs < max_exec and time.monotonic() - t0 < max_s:
        improved = False
        for cand in mod.shrink_candidates(case, vinfo):
            if execs >= max_exec or time.monotonic() - t0 > max_s:
                break
            execs += 1
            r, filled = execute_forked(mod, cand)
            if r is not None and r[0] == "violation" and class_key(r[1]) == key:
                case, vinfo, improved = filled, r[1], True
                break
    return case, vinfo, execs


def code_rev():
    try:
        return subprocess.run(["git", "-C", REPO, "rev-parse", "HEAD"], capture_output=True, text=True, timeout=10).stdout.strip()
    except Exception:
        return "unknown"


def write_replay(prop, seed, run_index, case, vinfo, tag=""):
    rdir = os.environ.get("VERIF_REPLAY_DIR") or os.environ.get("VERIF_EVIDENCE_DIR") or os.path.join(VERIF, "replays")
    os.makedirs(rdir, exist_ok=True)
    path = os.path.join(rdir, f"{prop}-{seed}-{run_index}{tag}.json")
    with open(path, "w") as f:
        json.dump({"property": prop, "seed": seed, "run_index": run_index, "case": case, "violation": vinfo,
                   "code_rev": code_rev()}, f, indent=1, sort_keys=True)
    return path


def replay_file(prop, path):
    """Re-execute a recorded case. Returns violation info or None."""
    import_library()
    mod = load_prop(prop)
    with open(path) as f:
        rec = json.load(f)
    if rec.get("violation", {}).get("oracle") == "liveness":
        # the recorded failure is a crash or hang: replay in a child with the same 120 s watchdog
        def body():
            faulthandler.dump_traceback_later(120, exit=True)
            return execute(mod, rec["case"], Stats())
        r = fork_call(body)
        if r is None:
            return rec["violation"]
    else:
        r = execute(mod, rec["case"], Stats())
    if r is not None and r[0] == "violation":
        return r[1]
    return None


def verify_replay_in_subprocess(prop, path):
    env = dict(os.environ)
    p = subprocess.run([os.path.join(VERIF, "check"), prop, "--replay", path], capture_output=True, text=True,
                       env=env, timeout=600)
    return p.returncode == 1 and f"VIOLATION property={prop}" in p.stdout


def load_known(prop):
    path = os.path.join(VERIF, "known_findings.json")
    if not os.path.exists(path):
        return []
    with open(path) as f:
        return [e for e in json.load(f)["findings"] if e["property"] == prop]


def run_check(prop: str, tier: str, seed: int) -> int:
    t0 = time.monotonic()
    import_library()
    mod = load_prop(prop)
    cfg = dict(mod.TIERS[tier])
    if os.environ.get("VERIF_BUDGET_S"):
        cfg["budget_s"] = float(os.environ["VERIF_BUDGET_S"])
    if os.environ.get("VERIF_RUNS"):
        cfg["runs"] = int(os.environ["VERIF_RUNS"])
    workers = int(os.environ.get("VERIF_WORKERS", "0")) or min(16, os.cpu_count() or 4)
    want_digest = bool(os.environ.get("VERIF_DIGESTS"))
    chunk = cfg.get("chunk", 50)
    exit_code = 0
    printed = []

    known = load_known(prop)
    known_open = [e for e in known if e["status"] == "known"]
    regression_runs = 0

    # 2. seeded search
    total = Counter()
    distinct, distinct2 = set(), set()
    samples, violations, digests = [], [], {}
    target = cfg["runs"]
    deadline = t0 + cfg["budget_s"]
    next_idx = 0
    completed = 0
    harness_error = None
    with ProcessPoolExecutor(max_workers=workers, mp_context=get_context("fork")) as ex:
        pending = set()

        def submit():
            nonlocal next_idx
            n = min(chunk, target - next_idx)
            fut = ex.submit(_chunk, (prop, tier, seed, next_idx, n, want_digest, deadline))
            next_idx += n
            pending.add(fut)

        while next_idx < target and len(pending) < workers * 2:
            submit()
        while pending:
            done_f = next(as_completed(pending))
            pending.discard(done_f)
            try:
                res = done_f.result()
            except Exception as e:  # worker died / harness bug: never a pass, never a VIOLATION
                harness_error = f"worker failed: {e!r}"
                break
            total.update(res["c"])
            distinct |= res["distinct"]
            distinct2 |= res["distinct2"]
            for s in res["samples"]:
                if len(samples) < 3:
                    samples.append(s)
            violations.extend(res["violations"])
            digests.update(res["digests"])
            completed += res["done"]
            if next_idx < target and time.monotonic() < deadline and len(violations) < 20:
                submit()
        if harness_error:
            for f in pending:
                f.cancel()

    if harness_error:
        print(f"HARNESS-ERROR property={prop} {harness_error}")
        return 2

    # 1. known findings / fixed regressions
    if hasattr(mod, "prepare"):
        mod.prepare()
    for e in known:
        if "case" not in e:
            continue
        r, _ = execute_forked(mod, e["case"])
        regression_runs += 1
        failing = r is not None and r[0] == "violation"
        if e["status"] == "known":
            if failing:
                printed.append(f"KNOWN-FINDING: property={prop} {e['what']}")
        elif failing:
            path = write_replay(prop, seed, f"regression-{e['id']}", e["case"], r[1])
            printed.append(f"VIOLATION property={prop} replay={path}")
            exit_code = 1

    # 3. violations: shrink, match against known findings, write replay, verify replay
    seen_classes = set()
    violations.sort(key=lambda v: v["run_index"])
    for v in violations:
        ck = class_key(v["violation"])
        if ck in seen_classes or len(seen_classes) >= 4:
            continue
        case, vinfo, execs = shrink(mod, v["case"], v["violation"])
        total["shrink_execs"] += execs
        seen_classes.add(ck)
        path = write_replay(prop, seed, v["run_index"], case, vinfo)
        if not verify_replay_in_subprocess(prop, path):
            # minimised case does not reproduce in a fresh interpreter: fall back to the case as found
            path = write_replay(prop, seed, v["run_index"], v["case"], v["violation"], tag="-unminimised")
            if not verify_replay_in_subprocess(prop, path):
                # still not: the failure needs the runs executed before it in the same process (hidden global state)
                first = (v["run_index"] // chunk) * chunk
                ok = False
                for start in sorted({max(first, v["run_index"] - d) for d in (1, 2, 4, 8, 16, 32, 64, 128, 256, 512, 1024)}, reverse=True):
                    seq = {"__sequence__": {"prop": prop, "seed": seed, "tier": tier, "start": start, "end": v["run_index"]}}
                    vi = dict(v["violation"])
                    vi["detail"] = ("[only after the runs %d..%d executed earlier in the same process: hidden process-global state] "
                                    % (start, v["run_index"] - 1)) + vi.get("detail", "")
                    path = write_replay(prop, seed, v["run_index"], seq, vi, tag="-sequence")
                    if verify_replay_in_subprocess(prop, path):
                        ok = True
                        break
                if not ok:
                    print(f"HARNESS-ERROR property={prop} violation at run {v['run_index']} did not replay from {path}: {vinfo}")
                    return 2
        printed.append(f"VIOLATION property={prop} replay={path}")
        print(f"  violation class={ck} detail={vinfo.get('detail','')[:300]}")
        exit_code = 1

    if completed < min(target, cfg.get("min_runs", 20)):
        print(f"HARNESS-ERROR property={prop} only {completed} runs completed within the budget")
        return 2

    # 4. evidence
    wall = time.monotonic() - t0
    faults = {k[6:]: n for k, n in sorted(total.items()) if k.startswith("fault.")}
    probes = {k[6:]: n for k, n in sorted(total.items()) if k.startswith("probe.")}
    discards = {k[8:]: n for k, n in sorted(total.items()) if k.startswith("discard.")}
    other = {k: n for k, n in sorted(total.items()) if not k.startswith(("fault.", "probe.", "discard."))}
    if not samples:
        samples = [mod.gen_case(random.Random(run_seed(seed, prop, 0)), tier)]
    cov = {
        "evaluations": int(total.get("evaluations", completed)),
        "distinct_nontrivial": len(distinct),
        "rule": mod.RULE,
        "samples": [compact(s) for s in samples[:2]],
        "exhaustive": False,
        "runs": completed,
        "runs_per_hour": int(completed / wall * 3600) if wall > 0 else 0,
        "seeds": f"VERIF_SEED={seed}, run seeds blake2b(seed:{prop}:i) for i in [0,{completed})",
        "simulated_time": "n/a - the library has no clock, timer or timeout; logical steps are reported instead",
        "logical_steps": int(total.get("steps", 0)),
        "faults_fired": faults,
        "reach_probes": probes,
        "discarded_cases": discards,
        "counters": other,
        "known_finding_hits": int(total.get("runs_known_finding", 0)),
        "regression_cases_run": regression_runs,
        "real_components": getattr(mod, "REAL", []),
        "stub_components": getattr(mod, "STUBS", []),
        "workers": workers,
    }
    if hasattr(mod, "RULE2"):
        cov["distinct_secondary"] = {"count": len(distinct2), "rule": mod.RULE2}
    if hasattr(mod, "SPLIT"):
        cov.update(mod.SPLIT)
    if want_digest:
        cov["run_digest"] = hashlib.blake2b(json.dumps(sorted(digests.items())).encode(), digest_size=8).hexdigest()
        dpath = os.environ.get("VERIF_DIGEST_OUT")
        if dpath:
            with open(dpath, "w") as f:
                json.dump({str(k): v for k, v in sorted(digests.items())}, f)
    ev = {
        "property_id": prop, "tier": tier, "seed": seed, "level": mod.LEVEL, "coverage": cov,
        "assumptions": mod.ASSUMPTIONS, "wall_s": round(wall, 2), "violations": sum(1 for p in printed if p.startswith("VIOLATION")),
    }
    edir = os.environ.get("VERIF_EVIDENCE_DIR") or os.path.join(VERIF, "evidence")
    os.makedirs(edir, exist_ok=True)
    tmp = os.path.join(edir, f".{prop}.json.tmp")
    with open(tmp, "w") as f:
        json.dump(ev, f, indent=1, sort_keys=True)
    os.replace(tmp, os.path.join(edir, f"{prop}.json"))
    for line in printed:
        print(line)
    print(f"{prop} tier={tier} seed={seed} runs={completed} ok={total.get('runs_ok',0)} discarded={sum(discards.values())} "
          f"violating={total.get('runs_violating',0)} known={total.get('runs_known_finding',0)} evaluations={cov['evaluations']} distinct={len(distinct)} wall={wall:.1f}s exit={exit_code}")
    return exit_code


def compact(obj, limit=1500):
    s = json.dumps(obj, sort_keys=True)
    if len(s) <= limit:
        return obj
    return {"truncated_json": s[:limit] + "..."}
