"""Self-tests of the machinery (not registered checks):
  selftest.py determinism <ID> [runs]   same seed -> identical per-run event-log digests across processes,
                                        worker counts and PYTHONHASHSEED
  selftest.py sensitivity <ID> [name]   every mutant in mutants/<ID>/*.json (a deliberate property-breaking edit applied to
                                        a scratch copy of /repo) must make the quick check exit 1 with a VIOLATION line
  selftest.py mutant-tests <ID> [name]  run the repository's own test suite on each mutant (they should stay green)
"""
import glob
import json
import os
import shutil
import subprocess
import sys
import tempfile

VERIF = os.path.dirname(os.path.dirname(os.path.abspath(__file__)))
REPO = os.environ.get("VERIF_REPO", "/repo")


def run_check(prop, env_extra, tier="quick"):
    env = dict(os.environ)
    env.update(env_extra)
    p = subprocess.run([os.path.join(VERIF, "check"), prop, "--tier", tier], capture_output=True, text=True, env=env)
    return p.returncode, p.stdout + p.stderr


def determinism(prop, runs="400"):
    outs = []
    tmp = tempfile.mkdtemp(prefix="verif_det_")
    try:
        for i, (workers, hs) in enumerate([(4, "0"), (16, "0"), (16, "12345"), (7, "777")]):
            out = os.path.join(tmp, f"d{i}.json")
            rc, txt = run_check(prop, {"VERIF_DIGESTS": "1", "VERIF_DIGEST_OUT": out, "VERIF_WORKERS": str(workers),
                                       "PYTHONHASHSEED": hs, "VERIF_RUNS": runs, "VERIF_BUDGET_S": "600",
                                       "VERIF_EVIDENCE_DIR": tmp})
            if rc not in (0, 1):
                print(txt)
                print(f"determinism {prop}: run {i} failed rc={rc}")
                return 1
            outs.append(json.load(open(out)))
        ok = all(o == outs[0] for o in outs[1:])
        n = len(outs[0])
        if not ok:
            for i, o in enumerate(outs[1:], 1):
                diff = [k for k in outs[0] if outs[0][k] != o.get(k)]
                print(f"  config {i}: {len(diff)} differing runs, first: {diff[:5]}")
        print(f"determinism {prop}: {n} runs x 4 executions (workers 4/16/16/7, PYTHONHASHSEED 0/0/12345/777): "
              f"{'IDENTICAL' if ok else 'DIVERGED'}")
        return 0 if ok else 1
    finally:
        shutil.rmtree(tmp, ignore_errors=True)


def make_mutant(m, dest):
    shutil.copytree(os.path.join(REPO, "dissect"), os.path.join(dest, "dissect"),
                    ignore=shutil.ignore_patterns("__pycache__"))
    for e in m["edits"]:
        p = os.path.join(dest, e["file"])
        s = open(p).read()
        if s.count(e["old"]) != 1:
            raise RuntimeError(f"mutant {m['name']}: anchor occurs {s.count(e['old'])} times in {e['file']}")
        open(p, "w").write(s.replace(e["old"], e["new"]))


def sensitivity(prop, only=None):
    files = sorted(glob.glob(os.path.join(VERIF, "mutants", prop, "*.json")))
    bad = 0
    for f in files:
        m = json.load(open(f))
        m["name"] = os.path.basename(f)[:-5]
        if only and only != m["name"]:
            continue
        tmp = tempfile.mkdtemp(prefix="verif_mut_")
        try:
            make_mutant(m, tmp)
            rc, txt = run_check(prop, {"VERIF_REPO": tmp, "VERIF_EVIDENCE_DIR": tmp, **m.get("env", {})})
            caught = rc == 1 and f"VIOLATION property={prop}" in txt
            line = [l for l in txt.splitlines() if "violation class" in l][:1]
            print(f"  {prop} mutant {m['name']}: {'CAUGHT' if caught else 'MISSED rc=%d' % rc} {line[0][:160] if line else ''}")
            if not caught:
                bad += 1
                print("\n".join(txt.splitlines()[-5:]))
        finally:
            shutil.rmtree(tmp, ignore_errors=True)
    print(f"sensitivity {prop}: {len(files) - bad}/{len(files)} mutants caught")
    return 1 if bad else 0


def mutant_tests(prop, only=None):
    files = sorted(glob.glob(os.path.join(VERIF, "mutants", prop, "*.json")))
    for f in files:
        m = json.load(open(f))
        m["name"] = os.path.basename(f)[:-5]
        if only and only != m["name"]:
            continue
        tmp = tempfile.mkdtemp(prefix="verif_mut_")
        try:
            make_mutant(m, tmp)
            shutil.copytree(os.path.join(REPO, "tests"), os.path.join(tmp, "tests"), ignore=shutil.ignore_patterns("__pycache__"))
            p = subprocess.run(["/venv/bin/python", "-m", "pytest", "-q", "-p", "no:cacheprovider", "-x", "tests"], cwd=tmp,
                               capture_output=True, text=True, env={**os.environ, "PYTHONPATH": tmp})
            print(f"  {prop} mutant {m['name']}: tests {p.stdout.strip().splitlines()[-1] if p.stdout.strip() else p.stderr[-200:]}")
        finally:
            shutil.rmtree(tmp, ignore_errors=True)


if __name__ == "__main__":
    cmd, prop = sys.argv[1], sys.argv[2].upper()
    rest = sys.argv[3:]
    sys.exit({"determinism": determinism, "sensitivity": sensitivity, "mutant-tests": mutant_tests}[cmd](prop, *rest) or 0)
