"""E-WORLD: several logical clients (own cstruct objects, own instances) interleaved in one thread over the library's
process-global state; per-step frame invariant, history-independence checks, and per-client isolation replay in a
pristine process (zygote). Serves C14 (no hidden shared state) and C17 (structure value semantics)."""
from __future__ import annotations

import copy
import io
import json
import math
import random

from sim import gen
from sim.core import Discard, Violation
from sim.observe import observe

# ------------------------------------------------------------------ case generation


def gen_client(rng: random.Random, mode: str, n_ops: int, defs=None):
    cfg = gen.gen_config(rng)
    sw = gen.gen_swarm(rng)
    sw["eof"] = False
    for f in ("structarray", "nested", "array"):
        if rng.random() < 0.6:
            sw[f] = True
    if mode == "C17":
        # plain_enums: the compiled reader mis-parses arrays of enums over 24/48/128-bit integers and flags with duplicate
        # values cannot build pseudo-members (C03/C12 matters, outside this property)
        g = gen.DefGen(rng, swarm=sw, max_fields=6, fixed_only=rng.random() < 0.7, plain_enums=True)
    else:
        g = gen.DefGen(rng, swarm=sw, max_fields=6)
    built = g.build(n_top=rng.randint(1, 3))
    if defs is None:
        defs = built  # else: the same definition text as another client (two programs loading one header)
    names = [s["name"] for s in defs["structs"]]
    ops = [{"op": "load"}]
    # custom: the client registers a user-defined type (add_custom_type) whose values are MUTABLE objects, and a structure
    # with a field of that type
    custom = mode == "C14" and rng.random() < 0.2
    n_parse = 0
    paths = {n: [p for p in gen.leaf_paths(defs, s)] for n, s in zip(names, defs["structs"])}
    extra = 0
    for _ in range(n_ops):
        r = rng.random()
        t = rng.choice(names)
        h = rng.randrange(16)
        if mode == "C14":
            if custom and rng.random() < 0.1:
                ops.append(rng.choice([{"op": "custom_new"}, {"op": "custom_new"}, {"op": "custom_mut", "h": h, "b": rng.randrange(256)},
                                       {"op": "custom_mut", "h": h, "b": rng.randrange(256)}, {"op": "custom_parse", "seed": rng.getrandbits(16)}]))
            elif r < 0.14:
                ops.append({"op": "default", "t": t})
            elif r < 0.30:
                ops.append({"op": "parse", "t": t, "seed": rng.getrandbits(30), "n": rng.choice([32, 64, 128]), "bytes": rng.random() < 0.5})
                n_parse += 1
            elif r < 0.32 and n_parse:
                ops.append({"op": "reparse", "k": rng.randrange(n_parse)})
            elif r < 0.37:
                ops.append(gen_construct(rng, defs, t))
            elif r < 0.41:
                ops.append({"op": "parse", "t": t, "seed": rng.getrandbits(30), "n": rng.randrange(0, 4)})
                n_parse += 1
            elif r < 0.57:
                ops.append(gen_mutation(rng, defs, paths, h))
            elif r < 0.60:
                # a constant is redefined (by a #define line or through cs.consts): later parses of structures whose
                # lengths still refer to it by name must follow, exactly as on an object that never parsed before
                if defs["defines"]:
                    ops.append({"op": "redefine", "name": rng.choice(defs["defines"])[0], "v": rng.randint(0, 4), "via": rng.choice(["load", "consts"])})
                else:
                    ops.append({"op": "dump", "h": h})
            elif r < 0.625:
                ops.append({"op": "ptr_twins", "t": t, "seed": rng.getrandbits(30)})
            elif r < 0.66:
                # a structure of this client built through the Python API: update blocks stay open ACROSS other clients' ops
                bn = rng.choice(["B1", "B1", "B2"])
                ops.append(rng.choice([
                    {"op": "build_begin", "name": bn},
                    {"op": "build_add", "name": bn, "ftype": rng.choice(["uint8", "uint16", "uint32", "char", names[0], "uint64"]), "n": rng.choice([None, None, 2])},
                    {"op": "build_add", "name": bn, "ftype": rng.choice(["uint8", "uint16", "uint32", "int24", names[-1]]), "n": None},
                    {"op": "build_end", "name": bn},
                    {"op": "build_use", "name": bn, "seed": rng.getrandbits(16)}]))
            elif r < 0.74:
                ops.append({"op": "dump", "h": h})
            elif r < 0.79:
                ops.append({"op": "set_endian", "e": rng.choice("<>!")})
            elif r < 0.84:
                extra += 1
                nm = rng.choice([f"X{extra}", "Shared", names[0]])
                body = rng.choice(["uint8 a; uint16 b;", "uint32 a[2];", f"{names[0]} inner; char c;", "uint16 n; char d[n & 3];"])
                ops.append({"op": "load_more", "text": f"struct {nm} {{ {body} }};", "t": nm})
            elif r < 0.88:
                ops.append({"op": "load_bad", "text": rng.choice([
                    "struct Good1 { uint8 a; }; struct Bad1 { nosuchtype b; };",
                    "#define KK 3\nstruct Bad2 { uint8 a[KK] }",
                    "typedef uint8 TT; typedef uint16 TT;",
                    "enum EE : uint8 { A = 1/0 };"])})
            elif r < 0.91:
                ops.append({"op": "add_type", "name": rng.choice(["Alias1", "Shared", "uint8", "TT"]), "target": rng.choice(["uint16", names[0], "Alias1", "nope"])})
            elif r < 0.96:
                ops.append({"op": "resolve", "name": rng.choice(["X1", "X2", "Shared", "Good1", "TT", "Alias1", "KK", "S1", "S2", "E1", "N1"])})
            elif r < 0.98:
                ops.append({"op": "eval", "expr": rng.choice(["KK + 1", "N1 * 2", "sizeof(Shared)", "1 +", "M2 | 4", "3 / 0"])})
            else:
                anon = [m[0] for e in defs["enums"] if e["name"] is None for m in e["members"]]
                if anon:
                    ops.append({"op": "const_dump", "name": rng.choice(anon), "seed": rng.getrandbits(16)})
                else:
                    ops.append({"op": "dump", "h": h})
        else:  # C17
            if r < 0.10:
                ops.append({"op": "default", "t": t})
            elif r < 0.25:
                ops.append({"op": "parse", "t": t, "seed": rng.getrandbits(30), "n": rng.choice([64, 128]), "bytes": rng.random() < 0.5})
                n_parse += 1
            elif r < 0.35 and n_parse:
                ops.append({"op": "reparse", "k": rng.randrange(n_parse)})
            elif r < 0.50:
                ops.append(gen_mutation(rng, defs, paths, h))
            elif r < 0.535:
                m = gen_mutation(rng, defs, paths, h, simple=True)
                if m["op"] == "set" and len(m["path"]) >= 2:
                    ops.append({"op": "twin_mutate", "t": m["t"], "path": m["path"], "val": m["val"], "seed": rng.getrandbits(30)})
                else:
                    ops.append({"op": "zero_vs_default", "t": t})
            elif r < 0.555:
                ops.append({"op": "zero_vs_default", "t": t})
            elif r < 0.59:
                ops.append({"op": "eq", "a": h, "b": rng.randrange(16)})
            elif r < 0.62:
                ops.append({"op": "xeq", "a": h, "b": rng.randrange(16), "c": rng.randrange(4)})
            elif r < 0.70:
                ops.append({"op": "bool", "h": h})
            elif r < 0.82:
                ops.append(gen_construct(rng, defs, t))
            elif r < 0.97:
                m = gen_mutation(rng, defs, paths, h, simple=True)
                m["op"] = "set_diff" if m["op"] == "set" else m["op"]
                ops.append(m)
            else:
                ops.append({"op": "dump", "h": h})
    # late_defines: the structures are loaded BEFORE the #define lines they refer to, so array lengths stay expressions
    # that look the constants up by name at parse time (instead of being folded when the definition is loaded)
    return {"cfg": cfg, "defs": defs, "ops": ops, "custom": custom, "late_defines": mode == "C14" and bool(defs["defines"]) and rng.random() < 0.3}


def gen_mutation(rng, defs, paths, h, simple=False):
    allp = [(n, p) for n, ps in paths.items() for p in ps]
    if not allp:
        return {"op": "dump", "h": h}
    n, p = rng.choice(allp)
    if not simple:
        # bias towards arrays (mutable defaults) and arrays of structures (shared default elements)
        sa = [(n_, p_) for n_, p_ in allp if p_["dims"] and p_["kind"] == "struct" and len(p_["dims"]) == 1 and not p_["ptr"]
              and isinstance(p_["dims"][0], int) and p_["dims"][0] > 0]
        ar = [(n_, p_) for n_, p_ in allp if p_["dims"]]
        r = rng.random()
        if sa and r < 0.35:
            n, p = rng.choice(sa)
        elif ar and r < 0.6:
            n, p = rng.choice(ar)
    if p["dims"] and not simple and p["kind"] == "struct" and len(p["dims"]) == 1 and not p["ptr"]:
        sd = p["base_sd"]
        inner = [q for q in gen.leaf_paths(defs, sd) if not q["dims"]]
        if inner:
            q = rng.choice(inner)
            val = gen.gen_value(rng, defs, q)
            if val is not None:
                return {"op": "elem_set", "h": h, "t": n, "path": p["path"], "idx": rng.randrange(0, 3), "inner": q["path"], "val": val}
    if p["dims"] and not simple:
        inner = dict(p)
        inner["dims"] = []
        val = gen.gen_value(rng, defs, inner)
        if val is not None and not p["ptr"] and len(p["dims"]) == 2 and all(isinstance(d, int) and d > 0 for d in p["dims"]):
            return {"op": "arr_set", "h": h, "t": n, "path": p["path"], "idx": rng.randrange(p["dims"][0]), "idx2": rng.randrange(p["dims"][1]), "val": val}
        if val is not None and not p["ptr"] and len(p["dims"]) == 1 and rng.random() < 0.8:
            if rng.random() < 0.7:
                return {"op": "arr_set", "h": h, "t": n, "path": p["path"], "idx": rng.randrange(0, 3), "val": val}
            return {"op": "arr_append", "h": h, "t": n, "path": p["path"], "val": val}
    val = gen.gen_value(rng, defs, p)
    if val is None:
        return {"op": "dump", "h": h}
    if not simple and val["k"] == "int" and rng.random() < 0.08:
        val = {"k": "int", "v": rng.choice([2 ** 70, -2 ** 70, 256, -1])}  # possibly out of range: dump may raise
    return {"op": "set", "h": h, "t": n, "path": p["path"], "val": val}


def gen_construct(rng, defs, t):
    sd = next(s for s in defs["structs"] if s["name"] == t)
    kw = {}
    args = []
    positional = rng.random() < 0.4
    for f in sd["fields"]:
        if f["name"] is None:
            break
        info = next((p for p in gen.leaf_paths(defs, {"kind": sd["kind"], "fields": [f]})), None)
        val = gen.gen_value(rng, defs, info) if info else None
        if rng.random() < 0.3:
            val = {"k": "none"}  # an explicit None means "use the default", exactly like leaving the argument out
        if positional:
            if val is None or rng.random() < 0.3:
                break
            args.append(val)
        elif val is not None and rng.random() < 0.5:
            kw[f["name"]] = val
    if len(args) == 1 and not kw and args[0]["k"] in ("bytes", "str", "none"):
        # T(b"x") with a single bytes-like argument means "parse these bytes" (documented call form), not construction
        kw = {sd["fields"][0]["name"]: args[0]}
        args = []
    if rng.random() < 0.12 and sd["fields"] and sd["fields"][0]["name"] not in (None, "_"):
        # argument errors: a field given positionally AND by keyword, or more positionals than fields - must raise TypeError
        # like any Python callable, never silently prefer or drop a value
        one = {"k": "int", "v": 1}
        if rng.random() < 0.5:
            return {"op": "construct", "t": t, "args": [one], "kw": {sd["fields"][0]["name"]: {"k": "int", "v": 2}}, "bad": "dup"}
        return {"op": "construct", "t": t, "args": [one] * (len(sd["fields"]) + 1 + rng.randrange(2)), "kw": {}, "bad": "extra"}
    return {"op": "construct", "t": t, "args": args, "kw": kw}


def gen_world(rng: random.Random, tier: str, mode: str):
    k = rng.randint(2, 4)
    n_ops = rng.randint(8, 30)
    clients = []
    for i in range(k):
        same = clients and rng.random() < 0.35
        c = gen_client(rng, mode, n_ops, defs=copy.deepcopy(rng.choice(clients)["defs"]) if same else None)
        clients.append(c)
    remaining = [len(c["ops"]) for c in clients]
    inter = []
    burst = rng.choice([1, 1, 2, 4])
    while any(remaining):
        c = rng.choice([i for i in range(k) if remaining[i]])
        for _ in range(rng.randint(1, burst)):
            if remaining[c]:
                inter.append(c)
                remaining[c] -= 1
    return {"mode": mode, "clients": clients, "interleave": inter}


# ------------------------------------------------------------------ execution

class Client:
    def __init__(self, spec):
        self.spec = spec
        self.cs = None
        self.handles = []
        self.parses = []
        self.pc = 0
        self.log = []
        self.first_default = {}
        self.parse_memo = {}
        self.extra_loaded = False
        self.loaded_texts = []  # ("load", text) | ("const", name, value): what a fresh object must replay
        self.epoch = 0  # number of constant redefinitions so far (part of the parse memo key)
        self.force_fresh = 0
        self.built = {}  # name -> [structure class, open update contexts, number of fields added]


def _outcome(fn):
    try:
        return fn()
    except Violation:
        raise
    except Exception as e:  # noqa: BLE001
        return ["exc", type(e).__name__]


def _navigate(obj, path):
    for p in path:
        obj = getattr(obj, p)
    return obj


def _truthy(v):
    """Python truthiness of a field value, computed structurally (never through the structure's own __bool__).
    Returns None when it cannot be told."""
    from dissect.cstruct.types import Structure
    from dissect.cstruct.types.structure import UnionProxy

    if isinstance(v, UnionProxy):
        v = object.__getattribute__(v, "__target__")
    if isinstance(v, Structure):
        res = False
        for f in type(v).__fields__:
            t = _truthy(getattr(v, f._name))
            if t is None:
                return None
            res = res or t
        return res
    if isinstance(v, float):
        return v != 0.0
    if isinstance(v, (int, bytes, str, list)):
        return bool(v)
    return None


def _plain(v):
    """Model value for equality: nested tuples of python values; class identity kept for structs/enums."""
    from dissect.cstruct.types import Enum, Flag, Structure
    from dissect.cstruct.types.structure import UnionProxy

    if isinstance(v, UnionProxy):
        v = object.__getattribute__(v, "__target__")
    if isinstance(v, Structure):
        return ("S", type(v), tuple(_plain(getattr(v, f._name)) for f in type(v).__fields__))
    if isinstance(v, (Enum, Flag)):
        return ("E", type(v), int(v.value))
    if isinstance(v, float):
        if math.isnan(v):
            raise ValueError("nan")
        return ("f", v)
    if isinstance(v, int):
        return ("i", int.__index__(v))
    if isinstance(v, bytes):
        return ("b", bytes(v))
    if isinstance(v, str):
        return ("s", str.__str__(v))
    if isinstance(v, list):
        return ("L", tuple(_plain(e) for e in v))
    return ("?", type(v).__name__)


def _has_union(t, depth=0):
    from dissect.cstruct.types import BaseArray, Structure, Union

    if depth > 6:
        return True
    if issubclass(t, Union):
        return True
    if issubclass(t, BaseArray):
        return _has_union(t.type, depth + 1)
    if issubclass(t, Structure):
        return any(_has_union(f.type, depth + 1) for f in t.__fields__)
    return False


_BLOB = []


def _blob_class():
    """A user-defined type in the style of the library's own tests: length-prefixed payload kept in a mutable attribute."""
    if not _BLOB:
        from dissect.cstruct.types import BaseType

        class Blob(BaseType):
            def __init__(self, value=b""):
                self.value = bytearray(value)

            @classmethod
            def _read(cls, stream, context=None):
                n = stream.read(1)
                if len(n) != 1:
                    raise EOFError
                return type.__call__(cls, stream.read(n[0] & 7))

            @classmethod
            def _write(cls, stream, data):
                return stream.write(bytes([len(data.value) & 7]) + bytes(data.value[: len(data.value) & 7]))

        _BLOB.append(Blob)
    return _BLOB[0]


def _mutate_first_int(v, depth=0):
    from dissect.cstruct.types import Structure

    if depth > 3:
        return
    for fld in type(v).__fields__:
        x = getattr(v, fld._name, None)
        if isinstance(x, int) and not isinstance(x, bool) and fld.bits is None and not hasattr(x, "name") and type(x).__name__ != "int":
            try:
                object.__setattr__(v, fld._name, type(x)((int.__index__(x) + 1) & 0x7F))
                return
            except Exception:  # noqa: BLE001
                pass
        elif isinstance(x, list):
            x.append(0)
            return
        elif isinstance(x, Structure) and not hasattr(x, "_buf"):
            _mutate_first_int(x, depth + 1)
            return


def _load_defs(cs, spec):
    kw = {"compiled": spec["cfg"]["compiled"], "align": spec["cfg"]["align"]}
    if spec.get("late_defines"):
        cs.load(gen.render(dict(spec["defs"], defines=[])), **kw)
        cs.load("".join(f"#define {n} {v}\n" for n, v in spec["defs"]["defines"]), **kw)
    else:
        cs.load(gen.render(spec["defs"]), **kw)


def exec_op(cl: Client, op, stats, mode, peers=None):
    """Execute one op of a client; returns a JSON-able outcome. Model oracles raise Violation."""
    k = op["op"]
    cs = cl.cs
    if k == "load":
        from dissect.cstruct import cstruct

        def f():
            cl.cs = cstruct(endian=cl.spec["cfg"]["endian"], pointer=cl.spec["cfg"]["pointer"])
            _load_defs(cl.cs, cl.spec)
            if cl.spec.get("custom"):
                cl.cs.add_custom_type("Blob", _blob_class())
                cl.cs.load("struct XBlob { uint8 n; Blob body; uint16 t; Blob more[2]; };", compiled=cl.spec["cfg"]["compiled"], align=False)
                stats.count("probe.client_with_custom_type")
            if cl.spec.get("late_defines"):
                stats.count("probe.client_with_late_defines")
            return ["ok"]
        return _outcome(f)
    if cs is None:
        return ["nocs"]
    if k == "default":
        def f():
            v = getattr(cs, op["t"])()
            cl.handles.append(v)
            o = observe(v)
            first = cl.first_default.setdefault(op["t"], o)
            if first != o:
                raise Violation("default_stability", "default_changed",
                                f"default {op['t']}() now observes {o}, first time {first}")
            return ["val", o]
        return _outcome(f)
    if k in ("parse", "reparse"):
        if k == "reparse":
            if not cl.parses:
                return ["skip"]
            op = cl.parses[op["k"] % len(cl.parses)]
        else:
            cl.parses.append(op)
        data = gen.gen_bytes(random.Random(op["seed"]), op["n"])

        def f():
            t = getattr(cs, op["t"])
            if op.get("bytes"):
                v = t(data)
                cl.handles.append(v)
                return ["val", observe(v), -1]
            st = io.BytesIO(data)
            v = t(st)
            cl.handles.append(v)
            return ["val", observe(v), st.tell()]
        out = _outcome(f)
        key = (op["t"], op["seed"], op["n"], bool(op.get("bytes")), cs.endian, cl.epoch)
        if mode == "C14" and (op["seed"] % 5 == 0 or cl.force_fresh > 0) and not cl.extra_loaded:
            cl.force_fresh -= 1
            # the same parse by an object with NO history: same definitions loaded into a fresh cstruct created with the
            # endianness that is current now
            def fresh():
                from dissect.cstruct import cstruct

                c2 = cstruct(endian=cs.endian, pointer=cl.spec["cfg"]["pointer"])
                _load_defs(c2, cl.spec)
                for item in cl.loaded_texts:
                    if item[0] == "load":
                        c2.load(item[1], compiled=cl.spec["cfg"]["compiled"], align=cl.spec["cfg"]["align"])
                    else:
                        c2.consts[item[1]] = item[2]
                t2 = getattr(c2, op["t"])
                if op.get("bytes"):
                    return ["val", observe(t2(data)), -1]
                st2 = io.BytesIO(data)
                v2 = t2(st2)
                return ["val", observe(v2), st2.tell()]
            ref = _outcome(fresh)
            stats.count("probe.parse_compared_with_fresh_object")
            if ref != out:
                raise Violation("parse_purity", "differs_from_object_without_history",
                                f"parse {op['t']} under endian {cs.endian}: this object (with history) gave {out}, a fresh cstruct with the "
                                f"same definitions and endianness gives {ref}")
        prev = cl.parse_memo.setdefault(key, out)
        stats.count("probe.parse_repeated" if prev is not out else "probe.parse_first")
        if prev != out:
            raise Violation("parse_purity", "same_bytes_different_result",
                            f"parse {op['t']} of the same bytes under endian {cs.endian} gave {out}, earlier {prev}")
        return out
    if k in ("set", "arr_set", "arr_append", "set_diff", "elem_set"):
        if not cl.handles:
            return ["skip"]
        hobj = cl.handles[op["h"] % len(cl.handles)]
        if type(hobj).__name__ != op["t"]:
            # pick a handle of the right type if there is one
            cands = [x for x in cl.handles if type(x).__name__ == op["t"]]
            if not cands:
                return ["skip"]
            hobj = cands[op["h"] % len(cands)]

        def f():
            val = gen.make_value(cs, op["val"])
            parent = _navigate(hobj, op["path"][:-1])
            if k == "set":
                setattr(parent, op["path"][-1], val)
            elif k == "arr_set" and "idx2" in op:
                getattr(parent, op["path"][-1])[op["idx"]][op["idx2"]] = val
                stats.count("probe.two_dimensional_element_set")
            elif k == "arr_set":
                getattr(parent, op["path"][-1])[op["idx"]] = val
            elif k == "arr_append":
                getattr(parent, op["path"][-1]).append(val)
            elif k == "elem_set":
                arr = getattr(parent, op["path"][-1])
                before = [observe(e) for e in arr]
                elem = arr[op["idx"]]
                setattr(_navigate(elem, op["inner"][:-1]), op["inner"][-1], val)
                after = [observe(e) for e in arr]
                stats.count("probe.elem_set_done")
                for j, (b, a) in enumerate(zip(before, after)):
                    if j != op["idx"] and a != b:
                        raise Violation("frame", "sibling_element_changed",
                                        f"{op['t']}.{'.'.join(op['path'])}[{op['idx']}].{'.'.join(op['inner'])} = {op['val']} "
                                        f"also changed element {j}: {b} -> {a}")
            else:
                return _set_diff(hobj, parent, op, val, stats)
            return ["ok"]
        out = _outcome(f)
        return out + [["target", _idx(cl.handles, hobj)]]
    if k == "dump":
        if not cl.handles:
            return ["skip"]
        hobj = cl.handles[op["h"] % len(cl.handles)]
        return _outcome(lambda: ["val", hobj.dumps().hex()])
    if k == "set_endian":
        cs.endian = op["e"]
        return ["ok"]
    if k == "load_more":
        def f():
            cs.load(op["text"], compiled=cl.spec["cfg"]["compiled"], align=cl.spec["cfg"]["align"])
            return ["ok"]
        out = _outcome(f)
        if out == ["ok"]:
            cl.loaded_texts.append(("load", op["text"]))  # the fresh-object reference replays successful loads
        else:
            cl.extra_loaded = True  # a load that failed half-way may legitimately have registered part of its text
        return out
    if k == "redefine":
        def f():
            if op["via"] == "load":
                cs.load(f"#define {op['name']} {op['v']}\n")
                cl.loaded_texts.append(("load", f"#define {op['name']} {op['v']}\n"))
            else:
                cs.consts[op["name"]] = op["v"]
                cl.loaded_texts.append(("const", op["name"], op["v"]))
            cl.epoch += 1
            cl.force_fresh = 3  # the next parses are compared with an object that replays loads and redefinitions only
            return ["ok"]
        return _outcome(f)
    if k == "load_bad":
        cl.extra_loaded = True
        return _outcome(lambda: (cs.load(op["text"]), ["ok"])[1])
    if k == "add_type":
        cl.extra_loaded = True
        return _outcome(lambda: (cs.add_type(op["name"], op["target"]), ["ok"])[1])
    if k == "resolve":
        def f():
            try:
                t = cs.resolve(op["name"])
                return ["type", t.__name__, getattr(t, "size", None)]
            except Exception:
                return ["const", repr(cs.consts[op["name"]])]
        return _outcome(f)
    if k == "ptr_twins":
        # two instances parsed from the SAME stream object: what their pointers lead to are independent objects
        from dissect.cstruct.types import Pointer, Structure

        def f():
            t = getattr(cs, op["t"])
            data = gen.gen_bytes(random.Random(op["seed"]), 160)
            st = io.BytesIO(data)
            a = t(st)
            st.seek(0)
            b = t(st)
            n = 0
            for fld in type(a).__fields__:
                pa, pb = getattr(a, fld._name, None), getattr(b, fld._name, None)
                if not (isinstance(pa, Pointer) and isinstance(pb, Pointer)):
                    continue
                da = db = None
                for delta in (None, 16, 8, 1):
                    try:
                        # the pointers as parsed, else pointers derived from them by arithmetic to a nearby address
                        qa = pa if delta is None else (pa - int.__index__(pa)) + delta
                        qb = pb if delta is None else (pb - int.__index__(pb)) + delta
                        da, db = qa.dereference(), qb.dereference()
                        if isinstance(da, (Structure, list)):
                            break
                    except Exception:  # noqa: BLE001
                        da = db = None
                if not isinstance(da, (Structure, list)):
                    continue
                n += 1
                before = observe(db)
                if isinstance(da, list):
                    da.append(da[0] if da else 0)
                else:
                    _mutate_first_int(da)
                if da is db or observe(db) != before:
                    raise Violation("frame", "dereferenced_targets_of_two_instances_shared",
                                    f"{op['t']}.{fld._name}: two instances parsed from the same stream object share the object their pointers lead to")
            stats.count("probe.ptr_twins_targets_compared", n)
            return ["ok", n]
        return _outcome(f)
    if k.startswith("custom_"):
        if not cl.spec.get("custom"):
            return ["skip"]

        def f():
            X = cs.XBlob
            if k == "custom_new":
                v = X()
                cl.handles.append(v)
                o = observe(v)
                first = cl.first_default.setdefault("XBlob", o)
                if first != o:
                    raise Violation("default_stability", "default_changed", f"default XBlob() now observes {o}, first time {first}")
                return ["val", o]
            if k == "custom_parse":
                v = X(gen.gen_bytes(random.Random(op["seed"]), 40))
                cl.handles.append(v)
                return ["val", observe(v)]
            cands = [x for x in cl.handles if type(x) is X]
            if not cands:
                return ["skip"]
            hobj = cands[op["h"] % len(cands)]
            tgt = hobj.body if op["b"] % 3 else hobj.more[op["b"] % 2]
            tgt.value.append(op["b"])  # in-place change of the custom value held by ONE instance
            stats.count("probe.custom_value_mutated_in_place")
            return ["ok", ["target", _idx(cl.handles, hobj)]]
        out = _outcome(f)
        return out
    if k.startswith("build_"):
        def get():
            if op["name"] not in cl.built:
                st = cs._make_struct(op["name"], [], align=cl.spec["cfg"]["align"])
                if cl.spec["cfg"]["compiled"]:
                    from dissect.cstruct import compiler

                    st = compiler.compile(st)
                cs.add_type(op["name"], st)
                cl.built[op["name"]] = [st, [], 0]
            return cl.built[op["name"]]

        def look(st, seed=0):
            data = gen.gen_bytes(random.Random(seed), 48)
            o = [st.size, st.alignment, bool(st.dynamic), len(st.__fields__), sorted(st.fields)]
            o.append(_outcome(lambda: ["val", observe(st(io.BytesIO(data)))]))
            o.append(_outcome(lambda: ["val", observe(st()), st().dumps().hex()]))
            return o

        def f():
            b = get()
            st = b[0]
            if k == "build_begin":
                ctx = st.start_update()
                ctx.__enter__()
                b[1].append(ctx)
                stats.count("probe.update_block_opened")
                return ["ok", len(b[1])]
            if k == "build_end":
                if not b[1]:
                    return ["skip"]
                b[1].pop().__exit__(None, None, None)
                return ["ok", look(st)]
            if k == "build_add":
                ft = cs.resolve(op["ftype"])
                if op.get("n"):
                    ft = ft[op["n"]]
                b[2] += 1
                st.add_field(f"m{b[2]}", ft)
                if any(o_.built and any(x[1] for x in o_.built.values()) for o_ in (peers or []) if o_ is not cl):
                    stats.count("probe.add_field_while_another_client_has_an_open_update_block")
                return ["ok", look(st)]
            return ["ok", look(st, op["seed"])]
        cl.extra_loaded = True
        return _outcome(f)
    if k == "eval":
        from dissect.cstruct.expression import Expression

        return _outcome(lambda: ["val", Expression(cs, op["expr"]).evaluate()])
    # ---- C17 ops
    if k == "eq":
        if not cl.handles:
            return ["skip"]
        a = cl.handles[op["a"] % len(cl.handles)]
        b = cl.handles[op["b"] % len(cl.handles)]
        try:
            expected = type(a) is type(b) and _plain(a) == _plain(b)
        except ValueError:
            stats.count("probe.eq_skipped_nan")
            return ["skip"]
        except AttributeError:
            stats.count("probe.eq_skipped_incomplete_instance")
            return ["skip"]
        if _has_union(type(a)) or _has_union(type(b)):
            stats.count("probe.eq_skipped_union")
            return ["skip"]
        # objects of other kinds are never equal to a structure instance, in either operand order, and != is the negation
        vals = [getattr(a, f_._name, None) for f_ in type(a).__fields__]
        for other in (None, 0, tuple(vals), list(vals), {}, "x", b"", type(a)):
            g2 = _outcome(lambda: ["val", a == other, other == a, a != other, other != a])
            if g2 != ["val", False, False, True, True]:
                raise Violation("c17_eq", "equal_to_object_of_another_kind",
                                f"{type(a).__name__} instance compared with {type(other).__name__} {other!r:.60}: (a == o, o == a, a != o, o != a) = {g2}")
        stats.count("probe.eq_with_other_kinds")
        got = _outcome(lambda: ["val", bool(a == b), bool(b == a), bool(a != b)])
        stats.count("probe.eq_expected_true" if expected else "probe.eq_expected_false")
        if got != ["val", expected, expected, not expected]:
            raise Violation("c17_eq", "eq_disagrees_with_fieldwise_model",
                            f"{type(a).__name__} == {type(b).__name__}: got {got}, field-wise model says {expected}; a={observe(a, sizes=False)} b={observe(b, sizes=False)}")
        if expected:
            ha = _outcome(lambda: ["val", hash(a)])
            hb = _outcome(lambda: ["val", hash(b)])
            if ha[0] == "val" and hb[0] == "val":
                stats.count("probe.hash_compared")
                if ha != hb:
                    raise Violation("c17_hash", "equal_instances_hash_differently", f"a={observe(a, sizes=False)}")
            elif ha[0] != hb[0]:
                raise Violation("c17_hash", "hashability_differs_between_equal_instances", f"{ha} {hb}")
        return got
    if k == "const_dump":
        # members of an anonymous enum are constants of THIS cstruct object: their encoding follows its endianness
        def f():
            m = getattr(cs, op["name"])
            t = type(m)
            raw = gen.gen_bytes(random.Random(op["seed"]), t.size or 1)
            return ["val", m.dumps().hex(), int(t(raw).value), cs.endian]
        return _outcome(f)
    if k == "twin_mutate":
        # two equal instances (same bytes parsed twice), hashed, then changed in place in the same way through a nested
        # structure: they must still be equal and hash equally
        t = getattr(cs, op["t"], None)
        if t is None or _has_union(t):
            return ["skip"]

        def f():
            data = gen.gen_bytes(random.Random(op["seed"]), 96)
            a, b = t(data), t(data)
            cl.handles.append(a)
            cl.handles.append(b)
            try:
                ha0 = hash(a)  # only ONE of the two is hashed before the change (sets, dict keys): a remembered hash shows
            except TypeError:
                ha0 = None
            val = gen.make_value(cs, op["val"])
            for x in (a, b):
                setattr(_navigate(x, op["path"][:-1]), op["path"][-1], val)
            try:
                same = _plain(a) == _plain(b)
            except ValueError:
                return ["skip"]
            stats.count("probe.twin_mutate_done")
            if same and (not (a == b) or (a != b)):
                raise Violation("c17_eq", "equal_after_same_nested_mutation_but_not_eq", f"{op['t']}: {observe(a, sizes=False)}")
            if same and ha0 is not None and hash(a) != hash(b):
                raise Violation("c17_hash", "equal_instances_hash_differently", f"{op['t']} after the same nested assignment {op['path']} on both: {observe(a, sizes=False)}")
            c = t(data)
            if same and ha0 is not None and _plain(c) != _plain(a) and hash(a) == ha0 and hash(c) == ha0 and (a == c):
                raise Violation("c17_eq", "changed_instance_still_equal_to_original", f"{op['t']}")
            return ["ok"]
        return _outcome(f)
    if k == "zero_vs_default":
        # "unspecified fields take the type's zero value": a default instance of a fixed-size structure and the parse of
        # all-zero bytes are the same value - equal observations, ==, and equal hashes
        from sim.observe import values_only

        t = getattr(cs, op["t"])
        if t.dynamic or t.size is None or _has_union(t):
            return ["skip"]

        def f():
            a = t()
            b = t(bytes(t.size))
            cl.handles.append(a)
            cl.handles.append(b)
            oa, ob = values_only(observe(a, sizes=False)), values_only(observe(b, sizes=False))
            stats.count("probe.zero_vs_default_compared")
            if oa != ob:
                raise Violation("c17_construct", "default_differs_from_zero_value", f"{op['t']}() observes {oa}, parsing {t.size} zero bytes observes {ob}")
            if not (a == b) or (a != b):
                raise Violation("c17_eq", "default_not_equal_to_zero_parse", f"{op['t']}() != {op['t']}(zero bytes): {oa}")
            try:
                ha, hb = hash(a), hash(b)
            except TypeError:
                return ["ok"]
            if ha != hb:
                raise Violation("c17_hash", "equal_instances_hash_differently", f"{op['t']}() and its zero-bytes parse are equal but hash differently: {oa}")
            return ["ok"]
        return _outcome(f)
    if k == "xeq":
        # equality across cstruct objects: instances of different structure types are never equal
        if peers is None or not cl.handles:
            return ["x"]
        other = peers[op["c"] % len(peers)]
        if other is cl or not other.handles:
            return ["x"]
        a = cl.handles[op["a"] % len(cl.handles)]
        b = other.handles[op["b"] % len(other.handles)]
        if type(a) is type(b):
            return ["x"]
        got = _outcome(lambda: ["val", bool(a == b), bool(b == a), bool(a != b)])
        stats.count("probe.xeq_same_name" if type(a).__name__ == type(b).__name__ else "probe.xeq_other_name")
        if got != ["val", False, False, True]:
            raise Violation("c17_eq", "instances_of_different_types_equal",
                            f"{type(a).__name__} (client A) vs {type(b).__name__} (client B): got {got}; a={observe(a, sizes=False)} b={observe(b, sizes=False)}")
        return ["x"]
    if k == "bool":
        if not cl.handles:
            return ["skip"]
        a = cl.handles[op["h"] % len(cl.handles)]
        try:
            exp = _truthy(a)
        except AttributeError:
            exp = None
        got = _outcome(lambda: ["val", bool(a)])
        if exp is None:
            return ["skip"]
        stats.count("probe.bool_expected_true" if exp else "probe.bool_expected_false")
        if got != ["val", exp]:
            raise Violation("c17_bool", "bool_disagrees_with_fields", f"bool gave {got}, fields say {exp}: {observe(a, sizes=False)}")
        return got
    if k == "construct":
        def f():
            t = getattr(cs, op["t"])
            args = [gen.make_value(cs, s) for s in op["args"]]
            kw = {n: gen.make_value(cs, s) for n, s in op["kw"].items()}
            if not args and not kw:
                return ["skip"]
            v = t(*args, **kw)
            cl.handles.append(v)
            return ["val", observe(v, sizes=False), v]
        out = _outcome(f)
        if op.get("bad"):
            stats.count("probe.construct_with_argument_error")
            if out[0] == "val":
                cl.handles.pop()
                raise Violation("c17_construct", "argument_error_accepted",
                                f"{op['t']}(*{op['args']}, **{op['kw']}) ({op['bad']}: a field given twice / too many positional values) "
                                f"returned {out[1]} instead of raising TypeError")
            return out[:2]
        if out[0] == "val":
            v = out.pop()
            t = type(v)
            if _has_union(t):
                return out
            # reference: default instance + assignments
            d = t()
            # positional parameters are the DISTINCT field names in declaration order (a repeated discard field '_' is one
            # parameter)
            names = list(dict.fromkeys(f_._name for f_ in t.__fields__))
            for n, s in zip(names, op["args"]):
                if s["k"] != "none":
                    setattr(d, n, gen.make_value(cs, s))
            for n, s in op["kw"].items():
                if s["k"] != "none":
                    setattr(d, n, gen.make_value(cs, s))
            stats.count("probe.construct_compared")
            if observe(d, sizes=False) != out[1]:
                raise Violation("c17_construct", "construct_differs_from_default_plus_assign",
                                f"{op['t']}(*{op['args']}, **{op['kw']}) observes {out[1]} but default+assign observes {observe(d, sizes=False)}")
        return out
    raise ValueError(k)


def _idx(handles, obj):
    for i, x in enumerate(handles):
        if x is obj:
            return i
    return -1


def _set_diff(hobj, parent, op, val, stats):
    """C17: assigning a field of a fixed-size structure changes exactly that field's bytes in dumps()."""
    from dissect.cstruct.types.enum import EnumMetaType

    t = type(hobj)
    name = op["path"][-1]
    if t.dynamic or _has_union(t):
        setattr(parent, name, val)
        return ["ok"]
    # locate the field: offsets along the path (library's own field table, see DESIGN 4.7 / limits)
    off = 0
    cur = t
    fld = None
    for p in op["path"]:
        fld = cur.lookup.get(p)
        if fld is None or fld.offset is None:
            setattr(parent, name, val)
            return ["ok"]
        off += fld.offset
        cur = fld.type
    before = hobj.dumps()
    if len(before) != t.size:
        # the instance already holds a value that does not fit its fixed-size type (earlier out-of-domain assignment)
        setattr(parent, name, val)
        stats.count("probe.set_diff_skipped_inconsistent_instance")
        return ["ok"]
    setattr(parent, name, val)
    after = hobj.dumps()
    ft = fld.type
    if isinstance(ft, EnumMetaType) and fld.bits:
        ft = ft.type
    size = ft.size
    stats.count("probe.set_diff_checked")
    if len(before) != len(after):
        raise Violation("c17_local_assign", "dump_length_changed", f"{t.__name__}.{'.'.join(op['path'])}: {len(before)} -> {len(after)}")
    outside = [i for i in range(len(before)) if before[i] != after[i] and not (off <= i < off + size)]
    if outside:
        raise Violation("c17_local_assign", "bytes_outside_field_changed",
                        f"{t.__name__}.{'.'.join(op['path'])} = {op['val']}: field at [{off},{off + size}) but bytes {outside} changed; "
                        f"before={before.hex()} after={after.hex()}")
    if not fld.bits:
        enc = fld.type.dumps(val)
        if after[off:off + size] != enc:
            raise Violation("c17_local_assign", "field_bytes_not_encoding_of_value",
                            f"{t.__name__}.{'.'.join(op['path'])} = {op['val']}: bytes {after[off:off + size].hex()} expected {enc.hex()}")
    return ["ok"]


def run_alone(spec, mode):
    """One client's script with nobody else around. Returns its outcome log."""
    from sim.core import Stats

    cl = Client(spec)
    st = Stats()
    try:
        for op in spec["ops"]:
            cl.log.append(exec_op(cl, op, st, mode))
            if len(cl.log) == 1 and cl.log[0] != ["ok"]:
                return cl.log  # definitions do not load: outside the domain, the world is discarded
    except Violation as v:
        return {"violation": v.info, "at": len(cl.log)}
    return cl.log


def run_world(case, stats, mode):
    from sim.core import fork_call

    # isolation reference first, while this process is still pristine (it has imported the library but never used it):
    # each client alone in its own forked child. Also the domain filter: the definitions must load.
    alone_logs = []
    for c in case["clients"]:
        log = fork_call(run_alone, c, mode)
        if log is None:
            raise RuntimeError("isolated replay child died")
        if isinstance(log, dict):
            i = log["violation"]
            raise Violation("alone:" + i["oracle"], i["kind"], f"client {len(alone_logs)} running ALONE, op #{log['at']}: " + i["detail"],
                            client=len(alone_logs), op_index=log["at"])
        log = json.loads(json.dumps(log))
        if log[0] != ["ok"]:
            if mode == "C17" and log[0][0] == "exc" and log[0][1] in gen.INTERNAL_ERRORS + ("SyntaxError",):
                # the definitions are valid by construction: a loader that dies with an internal error (not a parser or
                # resolve error) leaves a structure type of which no instance can be constructed at all
                raise Violation("c17_construct", "structure_class_cannot_be_created",
                                f"client {len(alone_logs)}: loading its (valid) definitions raised {log[0][1]}: "
                                + gen.render(c["defs"])[:1500], client=len(alone_logs), op_index=0)
            raise Discard("load_fail")
        alone_logs.append(log)
    clients = [Client(c) for c in case["clients"]]
    snap = {}  # (client, handle index) -> observation
    prev_c = None
    switches = 0
    for step, ci in enumerate(case["interleave"]):
        cl = clients[ci]
        if cl.pc >= len(cl.spec["ops"]):
            continue
        op = cl.spec["ops"][cl.pc]
        cl.pc += 1
        if prev_c is not None and prev_c != ci:
            switches += 1
            stats.key2(prev_op, op["op"])
        prev_c, prev_op = ci, op["op"]
        try:
            out = exec_op(cl, op, stats, mode, peers=clients)
        except Violation as v:
            v.info["step"] = step
            raise
        cl.log.append(out)
        stats.count("steps")
        stats.count("op." + op["op"])
        if out and out[0] == "exc":
            stats.count("fault.op_raised:" + op["op"])
        stats.log(ci, op["op"], out)
        # ---- frame invariant: only the target of a mutating op may change
        target = None
        if op["op"] in ("set", "arr_set", "arr_append", "set_diff", "elem_set", "custom_mut") and out and isinstance(out[-1], list) and out[-1][:1] == ["target"]:
            target = (ci, out[-1][1])
        if True:
            for cj, other in enumerate(clients):
                for hi, hobj in enumerate(other.handles):
                    o = observe(hobj)
                    key = (cj, hi)
                    old = snap.get(key)
                    if old is not None and old != o and key != target:
                        raise Violation("frame", "untouched_instance_changed",
                                        f"step {step}: client {ci} op {op} changed instance {key} of type {type(hobj).__name__}: {old} -> {o}", step=step)
                    snap[key] = o
    stats.count("evaluations")
    if switches >= 2:
        stats.key(tuple(case["interleave"]), tuple(o["op"] for c in case["clients"] for o in c["ops"]))
    # ---- isolation: each client alone in a pristine process
    for ci, cl in enumerate(clients):
        alone = alone_logs[ci]
        mine = json.loads(json.dumps(cl.log))
        stats.count("isolated_replays")
        if alone != mine:
            d = next((i for i, (a, b) in enumerate(zip(alone, mine)) if a != b), min(len(alone), len(mine)))
            raise Violation("isolation", "interleaved_differs_from_alone",
                            f"client {ci} op #{d} {cl.spec['ops'][d] if d < len(cl.spec['ops']) else None}: interleaved {mine[d] if d < len(mine) else None} "
                            f"alone {alone[d] if d < len(alone) else None}", client=ci, op_index=d)


# ------------------------------------------------------------------ shrinking

def shrink_world(case, vinfo):
    k = len(case["clients"])
    # drop a whole client
    if k > 1:
        for i in range(k):
            c = copy.deepcopy(case)
            del c["clients"][i]
            c["interleave"] = [x - (1 if x > i else 0) for x in case["interleave"] if x != i]
            yield c
    # truncate the interleaving after the failing step
    if "step" in vinfo and vinfo["step"] + 1 < len(case["interleave"]):
        c = copy.deepcopy(case)
        c["interleave"] = case["interleave"][: vinfo["step"] + 1]
        yield c
    # drop single ops (and the matching interleave slot)
    for ci in range(k):
        ops = case["clients"][ci]["ops"]
        for oi in range(len(ops) - 1, 0, -1):
            c = copy.deepcopy(case)
            del c["clients"][ci]["ops"][oi]
            # remove the oi-th occurrence of ci in the interleave
            seen = -1
            for pos, x in enumerate(c["interleave"]):
                if x == ci:
                    seen += 1
                    if seen == oi:
                        del c["interleave"][pos]
                        break
            yield c
    for ci in range(k):
        for d in gen.shrink_defs(case["clients"][ci]["defs"]):
            c = copy.deepcopy(case)
            c["clients"][ci]["defs"] = d
            yield c
