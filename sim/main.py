"""CLI: main.py <ID> --tier quick|thorough  |  main.py <ID> --replay <file>. Exit 0 held / 1 violation / 2 harness error."""
import argparse
import os
import sys

sys.path.insert(0, os.path.dirname(os.path.dirname(os.path.abspath(__file__))))
from sim import core  # noqa: E402


def main():
    ap = argparse.ArgumentParser()
    ap.add_argument("prop")
    ap.add_argument("--tier", default=os.environ.get("VERIF_TIER", "quick"), choices=["quick", "thorough"])
    ap.add_argument("--replay")
    a = ap.parse_args()
    prop = a.prop.upper()
    if a.replay:
        v = core.replay_file(prop, a.replay)
        if v is not None:
            print(f"  replayed: {v['oracle']}/{v['kind']}: {v.get('detail','')[:500]}")
            print(f"VIOLATION property={prop} replay={a.replay}")
            return 1
        print(f"replay of {a.replay}: no violation")
        return 0
    seed = int(os.environ.get("VERIF_SEED", "0"))
    try:
        return core.run_check(prop, a.tier, seed)
    except Exception:
        import traceback

        traceback.print_exc()
        print(f"HARNESS-ERROR property={prop} exception in driver")
        return 2


if __name__ == "__main__":
    sys.exit(main())
