"""SimStream: the I/O seam. A plain object (not an io subclass) over an immutable byte image implementing exactly
the operations the library uses (read/tell/seek/write); every call is logged and may be faulted by plan."""
from __future__ import annotations

import io
import sys

EXC = {
    "EIO": lambda: OSError(5, "simulated I/O error"),
    "TIMEOUT": lambda: TimeoutError("simulated timeout"),
    "EINTR": lambda: InterruptedError(4, "simulated EINTR"),
    "UNSUP": lambda: io.UnsupportedOperation("simulated unseekable stream"),
}


def _caller():
    f = sys._getframe(2)
    fn = f.f_code.co_filename
    if fn.startswith("<compiled"):
        return "compiled:_read"
    return f"{fn.rsplit('/', 1)[-1][:-3]}:{f.f_code.co_name}"


class SimStream:
    """faults: list of dicts {kind, i, ...}:
    eof(k)             image ends at byte k
    short(i, m)        i-th read delivers at most m bytes (m < requested) although more exist
    empty(i)           i-th read returns b"" once
    none(i)            i-th read returns None
    raise_read(i, e)   i-th read raises EXC[e]
    raise_seek(i, e) / raise_tell(i, e)
    """

    def __init__(self, image: bytes, pos: int = 0, faults=(), track=False):
        self.image = bytes(image)
        self.pos = pos
        self.n_read = self.n_seek = self.n_tell = 0
        self.log = []
        self.fired = []
        self.track = track
        self.delivered = bytearray(len(self.image)) if track else None
        self.by_read, self.by_seek, self.by_tell = {}, {}, {}
        self.cut = None
        self._orig_len = len(self.image)
        for f in faults:
            k = f["kind"]
            if k == "eof":
                if f["k"] < len(self.image):
                    self.cut = f["k"]
                self.image = self.image[: f["k"]]
            elif k in ("short", "empty", "none", "raise_read"):
                self.by_read[f["i"]] = f
            elif k == "raise_seek":
                self.by_seek[f["i"]] = f
            elif k == "raise_tell":
                self.by_tell[f["i"]] = f
            else:
                raise ValueError(k)

    # -- the five operations the library uses
    def read(self, n=-1):
        i = self.n_read
        self.n_read += 1
        who = _caller()
        f = self.by_read.get(i)
        start = self.pos
        if f is not None:
            k = f["kind"]
            self.fired.append((k, who))
            if k == "raise_read":
                self.log.append(("read", n, start, "raise:" + f["e"], who))
                raise EXC[f["e"]]()
            if k == "none":
                self.log.append(("read", n, start, "none", who))
                return None
            if k == "empty":
                self.log.append(("read", n, start, 0, who))
                return b""
        if n is None or n < 0:
            end = len(self.image)
            want_end = self._orig_len
        else:
            end = min(len(self.image), start + n)
            want_end = min(self._orig_len, start + n)
        if self.cut is not None and want_end > self.cut and start <= self._orig_len and not any(k == "eof" for k, _ in self.fired):
            self.fired.append(("eof", who))
        if f is not None and f["kind"] == "short":
            end = min(end, start + f["m"])
        end = max(end, start) if start <= len(self.image) else start
        data = self.image[start:end] if start < len(self.image) else b""
        self.pos = start + len(data)
        if self.track and data:
            self.delivered[start:start + len(data)] = b"\x01" * len(data)
        self.log.append(("read", n, start, len(data), who))
        return data

    def tell(self):
        i = self.n_tell
        self.n_tell += 1
        f = self.by_tell.get(i)
        if f is not None:
            who = _caller()
            self.fired.append(("raise_tell", who))
            self.log.append(("tell", "raise:" + f["e"], who))
            raise EXC[f["e"]]()
        self.log.append(("tell", self.pos))
        return self.pos

    def seek(self, off, whence=0):
        i = self.n_seek
        self.n_seek += 1
        f = self.by_seek.get(i)
        if f is not None:
            who = _caller()
            self.fired.append(("raise_seek", who))
            self.log.append(("seek", off, whence, "raise:" + f["e"], who))
            raise EXC[f["e"]]()
        if whence == 0:
            new = off
        elif whence == 1:
            new = self.pos + off
        elif whence == 2:
            new = len(self.image) + off
        else:
            raise ValueError("whence")
        if new < 0:
            raise ValueError("negative seek position")
        self.pos = int(new)
        self.log.append(("seek", off, whence, self.pos))
        return self.pos

    def write(self, b):
        raise io.UnsupportedOperation("SimStream is read-only")


class PipeLikeSimStream(SimStream):
    """The same stream announcing itself as NOT seekable (pipe, socket file, raw device): `seekable()` returns False. seek
    and tell keep working (some such objects implement them), so every reader of the library can still run on it."""

    def seekable(self):
        return False

    def readable(self):
        return True
