"""Cooperative thread scheduler: real threads, baton passing, yield points at library line (optionally opcode)
events via sys.settrace. Exactly one thread is runnable at any instant, so CPython has nothing to choose; the
schedule (a list of (global step, choice) pre-emptions) decides every switch."""
from __future__ import annotations

import os
import sys
import threading

HOT = {"evaluate", "evaluate_exp", "read", "_read", "_read_array", "_read_0", "dereference", "_missing_", "write", "flush",
       "_read_fields", "_update", "_rebuild", "__call__"}


class HarnessError(BaseException):
    pass


class Sched:
    def __init__(self, n, preempts, lib_root, trace_enum=False, opcodes=False, order=None, step_cap=400000, wait_s=60.0):
        self.n = n
        self.sems = [threading.Semaphore(0) for _ in range(n)]
        self.state = ["runnable"] * n
        self.step = 0
        self.preempts = {int(s): int(r) for s, r in preempts}
        self.decisions = []
        self.done = threading.Event()
        self.error = None
        self.lib_root = lib_root
        self.trace_enum = trace_enum
        self.opcodes = opcodes
        self.order = list(order) if order else list(range(n))
        self.step_cap = step_cap
        self.wait_s = wait_s
        self.tls = threading.local()
        self.where = [None] * n
        self.started = [False] * n
        self.overlap = 0
        self._fncache = {}
        self.record = False
        self.trace = []  # (thread, (file, function)) per yield point, only when record is set

    def is_lib(self, fn):
        r = self._fncache.get(fn)
        if r is None:
            r = fn.startswith(self.lib_root) or fn.startswith("<compiled") or fn == "<string>" or (
                self.trace_enum and fn.endswith(os.sep + "enum.py"))
            self._fncache[fn] = r
        return r

    # ---- trace functions
    def tracer_global(self, frame, event, arg):
        if event != "call":
            return None
        code = frame.f_code
        if self.is_lib(code.co_filename):
            if self.opcodes and code.co_name in HOT:
                frame.f_trace_opcodes = True
            return self.tracer_local
        return None

    def tracer_local(self, frame, event, arg):
        if event == "line" or event == "opcode":
            self.yield_point(frame)
        return self.tracer_local

    def yield_point(self, frame):
        self.step += 1
        s = self.step
        if self.record:
            c = frame.f_code
            self.trace.append((self.tls.i, (c.co_filename.rsplit("/", 1)[-1] if not c.co_filename.startswith("<compiled") else "<compiled>", c.co_name)))
        if s > self.step_cap:
            self.error = "step cap exceeded"
            raise HarnessError("step cap exceeded")
        r = self.preempts.get(s)
        if r is None:
            return
        me = self.tls.i
        others = [i for i in self.order if self.state[i] == "runnable" and i != me]
        if not others:
            return
        to = others[r % len(others)]
        code = frame.f_code
        fn = code.co_filename
        here = ("<compiled>" if fn.startswith("<compiled") else fn.rsplit("/", 1)[-1], code.co_name)
        self.where[me] = here
        if self.started[to] and self.where[to] == here:
            self.overlap += 1
        self.decisions.append((s, me, to, f"{here[0]}:{code.co_name}:{frame.f_lineno}", self.started[to]))
        self.sems[to].release()
        self._acquire(me)

    def _acquire(self, i):
        if not self.sems[i].acquire(timeout=self.wait_s):
            self.error = f"thread {i} lost the baton"
            raise HarnessError(self.error)

    # ---- running
    def run(self, scripts):
        """scripts: list of callables; returns list of results (callable return value or ('harness', repr))."""
        results = [None] * self.n

        def body(i):
            self.tls.i = i
            try:
                self._acquire(i)
            except HarnessError:
                self.done.set()
                return
            self.started[i] = True
            sys.settrace(self.tracer_global)
            try:
                results[i] = scripts[i]()
            except HarnessError as e:
                results[i] = ("harness", repr(e))
            except BaseException as e:  # noqa: BLE001
                results[i] = ("harness", "script raised " + repr(e))
                self.error = self.error or ("script raised " + repr(e))
            finally:
                sys.settrace(None)
                self.state[i] = "finished"
                nxt = [j for j in self.order if self.state[j] == "runnable"]
                if nxt:
                    self.sems[nxt[0]].release()
                else:
                    self.done.set()

        threads = [threading.Thread(target=body, args=(i,), name=f"sim-{i}", daemon=True) for i in range(self.n)]
        for t in threads:
            t.start()
        self.sems[self.order[0]].release()
        if not self.done.wait(timeout=self.wait_s * 2):
            self.error = self.error or "scheduler did not finish"
        for t in threads:
            t.join(timeout=1.0)
        if self.error:
            raise HarnessError(self.error)
        return results
