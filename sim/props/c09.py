"""C09 - stream discipline: position independence, consistency across input kinds and call forms (engine E-POS)."""
from __future__ import annotations

import copy
import io
import mmap
import json
import random

from sim import gen
from sim.core import Discard, Violation
from sim.observe import observe
from sim.simstream import SimStream

ID = "C09"
LEVEL = "exploration"
TIERS = {"quick": {"runs": 40000, "budget_s": 75, "chunk": 50, "min_runs": 300},
         "thorough": {"runs": 1500000, "budget_s": 1200, "chunk": 200, "min_runs": 5000}}
RULE = ("case = seeded (definition set, config, stream image = junk prefix | value1 | junk gap | value2 | junk suffix, history of "
        "2-8 operations on ONE stream object: seek, raw read, parse (any call form), parse that fails half-way (truncated tail or "
        "injected read error) followed by more parses). Every parse at position p is compared with a stand-alone parse of "
        "image[p:] (value incl. recorded sizes, consumed bytes, or the same exception class); one parse per case is repeated "
        "on a twin image whose bytes before p and after the extent are re-randomised; bytes/bytearray/memoryview/stream inputs "
        "and the forms T(x), T.read(x), T.reads(x), cs.read(name, x) are compared. evaluations = parses checked. "
        "distinct_nontrivial = distinct (shape digest, p mod 16, stream kind, call form, kinds of preceding ops) with p != 0.")
ASSUMPTIONS = [
    "For aligned definitions every start offset is a multiple of 16 (the largest alignment of any type), as the statement restricts.",
    "To-end-of-stream ([EOF]) types: only bytes before p are re-randomised in the twin (their extent is the end of input).",
    "Reference = the library's own parse of image[p:] from offset 0 in a fresh BytesIO (differential oracle).",
    "Pointer dereference is not exercised here (C16).",
    "The history's stream object is one of: io.BytesIO, SimStream, io.BufferedReader with a 1-23 byte buffer, an anonymous "
    "mmap (a stream that also exports the buffer protocol). For mmap a ValueError ('seek out of range') is accepted where the "
    "stand-alone parse fails too or its extent (tail padding) ends beyond the end of the data: a memory map cannot be "
    "positioned past its end, which BytesIO and files allow.",
    "Across input kinds / call forms field VALUES are compared (not the _sizes bookkeeping nor the scalar wrapper class): "
    "T(b'x') on a structure whose only field is a char of exactly that size is a documented value-construction shortcut.",
]
REAL = ["dissect.cstruct readers (compiled and interpreted)", "io.BytesIO", "io.BufferedReader", "mmap.mmap (anonymous)",
        "binary file objects and gzip.GzipFile over scratch files (created, opened and unlinked inside the run)"]
STUBS = ["SimStream (logging seekable stream; injects one read error for failing parses)"]
FORMS = ["call", "read", "cs.read", "_read"]


def gen_case(rng: random.Random, tier: str):
    cfg = gen.gen_config(rng)
    kind = rng.choice(["bytesio", "sim", "sim", "sim", "mmap", "buffered", "gzip", "file"])
    sw = gen.gen_swarm(rng)
    if kind in ("gzip", "file"):
        sw["eof"] = rng.random() < 0.6  # real files: the end-of-data probe of to-end arrays is where file objects differ
    g = gen.DefGen(rng, swarm=sw)
    defs = g.build()
    unit = 16 if cfg["align"] else 1
    ops = []
    n = rng.randint(2, 8)
    for _ in range(n):
        r = rng.random()
        if r < 0.45:
            ops.append({"op": "parse", "form": rng.choice(FORMS)})
        elif r < 0.75:
            ops.append({"op": "seek", "to": rng.choice(["v1", "v1", "v2", "v2", "rand", "tail"]), "r": rng.getrandbits(16)})
        elif r < 0.85:
            ops.append({"op": "read", "n": rng.randint(0, 3) * unit})
        else:
            ops.append({"op": "parse_fault", "i": rng.randrange(6), "e": rng.choice(["EIO", "EINTR"])})
    if not any(o["op"] == "parse" for o in ops):
        ops.append({"op": "parse", "form": "call"})
    # names: a chain of by-name aliases AX0 -> AX1 -> AX2 -> <parsed type> registered with add_type(); some parses go through
    # cs.read(<alias>, stream), and the far end of the chain may be re-pointed (replace=True) between parses
    aliases = rng.random() < 0.25
    if aliases:
        for o in ops:
            if o["op"] == "parse" and rng.random() < 0.6:
                o["form"], o["alias"] = "cs.read", rng.randrange(3)
        for _ in range(rng.randint(0, 2)):
            ops.insert(rng.randint(1, len(ops)), {"op": "retarget", "to": rng.choice(["uint16", "uint32", "self", "int64", "self"])})
    # what is parsed: usually the last structure; sometimes an enum/flag type, a scalar, or an array type used as a
    # top-level type (all of them accept the same call forms and input kinds)
    root_sel = None
    r = rng.random()
    if r < 0.12 and [e for e in defs["enums"] if e["name"]]:
        root_sel = {"k": "enum", "name": rng.choice([e["name"] for e in defs["enums"] if e["name"]])}
    elif r < 0.17:
        root_sel = {"k": "scalar", "name": rng.choice(["int16", "uint32", "int64", "int24", "uint48", "wchar", "char", "float", "ileb128", "uint128"])}
    elif r < 0.22:
        root_sel = {"k": "array", "name": rng.choice(["uint16", "int32", "int24", "char", "wchar", "uint8"]), "n": rng.randint(1, 4)}
    return {"cfg": cfg, "defs": defs, "eof_tagged": g.has_eof and root_sel is None, "seed": rng.getrandbits(32), "image": None, "marks": None,
            "root_sel": root_sel,
            "pre": rng.randint(0, 3) * unit if rng.random() < 0.3 else rng.randint(0, 40) // unit * unit,
            "gap": rng.randint(0, 24) // unit * unit, "suf": rng.randint(0, 24), "kind": kind,
            "ops": ops, "twin_seed": rng.getrandbits(32), "aliases": aliases}


def _values_only(o):
    """Observation without recorded sizes and without the scalar wrapper type names: T(b"x") on a structure whose only
    field is a char of that size constructs the value directly (documented shortcut) - same field values, plain bytes."""
    if isinstance(o, list) and o:
        if o[0] == "S":
            return ["S", o[1], [[n, _values_only(v)] for n, v in o[2]]]
        if o[0] in ("i", "f", "b", "s"):
            return [o[0], o[2]]
        if o[0] == "L":
            return ["L", [_values_only(e) for e in o[2]]]
    return o


def _ref(root, image, p):
    """Stand-alone parse of image[p:]."""
    s = io.BytesIO(image[p:])
    try:
        v = root(s)
    except Exception as e:  # noqa: BLE001
        return ("exc", type(e).__name__)
    return ("val", observe(v), s.tell())


def _do_parse(cs, root, name, stream, form):
    if form == "call":
        return root(stream)
    if form == "read":
        return root.read(stream)
    if form == "cs.read" and name is not None:
        return cs.read(name, stream)
    return root._read(stream)


def run_case(case, stats):
    cfg = case["cfg"]
    try:
        cs = gen.make_cs(cfg, gen.render(case["defs"]))
        cs2 = gen.make_cs(cfg, gen.render(case["defs"]))
        sel = case.get("root_sel")
        if sel is None:
            name = case["defs"]["structs"][-1]["name"]
            root, root_ref = getattr(cs, name), getattr(cs2, name)
        elif sel["k"] == "array":
            name = None  # array types have no name in the type table: cs.read(name, x) does not apply
            root, root_ref = cs.resolve(sel["name"])[sel["n"]], cs2.resolve(sel["name"])[sel["n"]]
        else:
            name = sel["name"]
            root, root_ref = cs.resolve(name), cs2.resolve(name)
        # the stand-alone reference parses are done by a SECOND cstruct object (cs2) with the same definitions, so that
        # they cannot disturb (or repair) any state the history under test leaves on the type objects
    except Exception:
        raise Discard("load_fail")
    if case.get("aliases") and name is not None:
        for c_ in (cs, cs2):
            c_.add_type("AX2", name)
            c_.add_type("AX1", "AX2")
            c_.add_type("AX0", "AX1")
    if case["image"] is None:
        rng = random.Random(case["seed"])

        def p(d):
            s = io.BytesIO(d)
            root(s)
            return s.tell()

        lr = gen.has_null_terminated(case["defs"])
        a1 = gen.accepted_input(rng, p, stats=stats, long_runs=lr, tries=5 if lr else 4)
        a2 = gen.accepted_input(rng, p, stats=stats, long_runs=lr, tries=5 if lr else 4)
        if a1 is None or a2 is None:
            raise Discard("no_accepted_input")
        v1 = a1[0][: a1[1]]
        v2 = a2[0][: a2[1]]
        if len(v1) > 300 or len(v2) > 300:
            raise Discard("input_too_long")
        unit = 16 if cfg["align"] else 1
        pad1 = (-len(v1)) % unit
        img = gen.gen_bytes(rng, case["pre"]) + v1 + gen.gen_bytes(rng, pad1 + case["gap"])
        m2 = len(img)
        img += v2 + gen.gen_bytes(rng, case["suf"])
        case["image"] = img.hex()
        case["marks"] = {"v1": case["pre"], "v2": m2}
    image = bytes.fromhex(case["image"])
    marks = case["marks"]
    unit = 16 if cfg["align"] else 1
    shape = gen.shape_digest(case["defs"])

    def new_stream(img, faults=()):
        if case["kind"] == "bytesio" and not faults:
            return io.BytesIO(img)
        if case["kind"] == "mmap" and not faults and img:
            # an anonymous memory map: a readable, seekable stream that ALSO exports the buffer protocol (no file involved)
            m = mmap.mmap(-1, len(img))
            m.write(img)
            m.seek(0)
            stats.count("probe.stream_kind_mmap")
            return m
        if case["kind"] in ("gzip", "file") and not faults:
            # real file objects: a plain binary file, or a decompressing reader over a (compressed) regular file - a seekable
            # stream with a fileno() whose file size is NOT the size of the stream's data. The file is unlinked right away.
            import gzip
            import os
            import tempfile

            fd, path = tempfile.mkstemp(prefix="verif_c09_")
            with os.fdopen(fd, "wb") as fh:
                fh.write(gzip.compress(img, mtime=0) if case["kind"] == "gzip" else img)
            fobj = open(path, "rb")
            os.unlink(path)
            stats.count("probe.stream_kind_" + case["kind"])
            return gzip.GzipFile(fileobj=fobj, mode="rb") if case["kind"] == "gzip" else fobj
        if case["kind"] == "buffered" and not faults:
            stats.count("probe.stream_kind_buffered_reader")
            return io.BufferedReader(io.BytesIO(img), buffer_size=rng_bufsize)
        return SimStream(img, faults=faults)

    rng_bufsize = 1 + case["twin_seed"] % 23  # tiny buffer: the buffered reader refills in the middle of fields
    stream = new_stream(image)
    hist = []
    first_ok = None
    for op in case["ops"]:
        k = op["op"]
        stats.count("steps")
        if k == "seek":
            if op["to"] in marks:
                pos = marks[op["to"]]
            elif op["to"] == "tail":
                pos = max(0, (len(image) - op["r"] % 6) // unit * unit)
            else:
                pos = (op["r"] % (len(image) + 1)) // unit * unit
            stream.seek(pos)
            hist.append("seek")
        elif k == "read":
            stream.read(op["n"])
            hist.append("read")
        elif k == "retarget":
            if case.get("aliases") and name is not None:
                for c_ in (cs, cs2):
                    c_.add_type("AX2", name if op["to"] == "self" else op["to"], replace=True)
                stats.count("probe.alias_chain_end_replaced")
            hist.append("retarget")
        elif k == "parse":
            p = stream.tell()
            if p % unit:
                stats.count("probe.parse_skipped_unaligned_position")
                continue
            if op.get("alias") is not None and case.get("aliases") and name is not None:
                # through cs.read(<alias>, stream): must be what parsing the type the alias resolves to NOW gives
                an = f"AX{op['alias']}"
                exp = _ref(cs2.resolve(an), image, p)
                try:
                    v = cs.read(an, stream)
                    got = ("val", observe(v), stream.tell() - p)
                except Exception as e:  # noqa: BLE001
                    got = ("exc", type(e).__name__)
                stats.count("evaluations")
                stats.count("probe.parse_through_alias_chain")
                stats.log(p, an, got)
                gz = (case["kind"] == "gzip" and exp[0] == "val" and p + exp[2] > len(image) and got[0] == "val"
                      and _values_only(got[1]) == _values_only(exp[1])) or (
                          case["kind"] == "gzip" and exp[0] == "exc" and got[0] == "val" and p + got[2] == len(image))
                if got != exp and not gz and not (case["kind"] == "mmap" and got == ("exc", "ValueError") and (exp[0] == "exc" or p + exp[2] > len(image))):
                    raise Violation("input_kinds", "read_by_alias_name_differs",
                                    f"cs.read({an!r}, stream) at p={p} after {hist}: got {got}, parsing the type that name resolves to gives {exp}", p=p)
                hist.append("parse_ok" if got[0] == "val" else "parse_fail")
                continue
            exp = _ref(root_ref, image, p)
            try:
                v = _do_parse(cs, root, name, stream, op["form"])
                got = ("val", observe(v), stream.tell() - p)
            except Exception as e:  # noqa: BLE001
                got = ("exc", type(e).__name__)
            stats.count("evaluations")
            stats.log(p, op["form"], got)
            if (case["kind"] == "mmap" and got == ("exc", "ValueError")
                    and (exp[0] == "exc" or (exp[0] == "val" and p + exp[2] > len(image)))):
                # the encoded extent (tail padding of an aligned structure) ends beyond the end of the data: BytesIO and
                # files allow positioning there, a memory map refuses the seek ("seek out of range"). Outside the domain
                # of the statement for this stream kind (the stream cannot be left at p + size). Likewise a parse of
                # truncated data fails on both, but with the memory map's own ValueError where BytesIO yields EOFError.
                stats.count("probe.mmap_extent_beyond_end_exempt")
                hist.append("parse_fail")
                continue
            if case["kind"] == "gzip" and exp[0] == "exc" and got[0] == "val" and p + got[2] == len(image):
                # the same limitation seen from the other side: data that lacks (part of) the tail padding of an aligned
                # member is rejected where the position can move beyond the end (the missing bytes are noticed), but a
                # decompressing reader stops at the end, so the parse ends exactly there with a value
                stats.count("probe.gzip_extent_beyond_end_exempt")
                hist.append("parse_ok")
                continue
            if (case["kind"] == "gzip" and exp[0] == "val" and p + exp[2] > len(image) and got[0] == "val"
                    and _values_only(got[1]) == _values_only(exp[1])):
                # a decompressing reader cannot be positioned beyond the end of its data either: seek() stops at the end
                # without an error, so the position (and the recorded size of the last field) falls short of the tail padding
                stats.count("probe.gzip_extent_beyond_end_exempt")
                hist.append("parse_ok")
                continue
            if p:
                stats.key(shape, p % 16, case["kind"], op["form"], tuple(hist[-3:]))
            if got[0] == "exc":
                stats.count("fault.parse_raised_" + got[1])
            if got != exp:
                which = "value" if got[0] == exp[0] == "val" and got[1] != exp[1] else ("position" if got[0] == exp[0] == "val" else "outcome")
                raise Violation("position_independence", which + "_differs_from_standalone",
                                f"parse at p={p} form={op['form']} after {hist}: got {got} stand-alone parse of image[p:] gives {exp}", p=p)
            if got[0] == "val" and first_ok is None:
                first_ok = (p, got)
            if got[0] == "val" and got[2] >= 64:
                stats.count("probe.parsed_value_of_64_bytes_or_more")
                if '"char[]"' in json.dumps(got[1]):
                    stats.count("probe.long_value_with_null_terminated_string")
            hist.append("parse_ok" if got[0] == "val" else "parse_fail")
        elif k == "parse_fault":
            # a parse that dies half-way on an injected read error, then the history continues on a clean stream at the same place
            p = stream.tell()
            if p % unit:
                continue
            if isinstance(stream, SimStream):
                # inject the fault into the live stream object: what follows happens on the SAME stream
                stream.by_read[stream.n_read + op["i"]] = {"kind": "raise_read", "i": stream.n_read + op["i"], "e": op["e"]}
                st = stream
                n_fired = len(st.fired)
            else:
                st = SimStream(image, pos=p, faults=[{"kind": "raise_read", "i": op["i"], "e": op["e"]}])
                n_fired = 0
            try:
                root(st)
                fired = len(st.fired) > n_fired
            except Exception:  # noqa: BLE001
                fired = True
            if len(st.fired) > n_fired:
                stats.count("fault.raise_read")
            if st is stream:
                for key in [k_ for k_ in stream.by_read if k_ >= stream.n_read]:
                    del stream.by_read[key]  # a fault that did not fire must not hit a later operation
            stream.seek(p)
            hist.append("parse_fault" if fired else "parse_ok")
    # ---- twin image: bytes before p and after the extent re-randomised
    if first_ok is not None:
        p, got = first_ok
        n = got[2]
        trng = random.Random(case["twin_seed"])
        if case["eof_tagged"]:
            twin = gen.gen_bytes(trng, p) + image[p:]
        else:
            twin = gen.gen_bytes(trng, p) + image[p:p + n] + gen.gen_bytes(trng, len(image) - p - n)
        s = new_stream(twin)
        s.seek(p)
        try:
            v = root(s)
            got2 = ("val", observe(v), s.tell() - p)
        except Exception as e:  # noqa: BLE001
            got2 = ("exc", type(e).__name__)
        stats.count("evaluations")
        stats.count("probe.twin_checked")
        if got2 != got:
            raise Violation("independence", "depends_on_bytes_outside_extent",
                            f"parse at p={p} consumed {n}; with bytes outside [p,p+n) re-randomised got {got2} instead of {got}", p=p)
        # ---- input kinds and call forms on image[p:]
        chunk = image[p:]
        exp = ("val", _values_only(got[1]))
        whole_ba = bytearray(image)
        kinds_ = [("bytes", chunk), ("bytearray", bytearray(chunk)), ("memoryview", memoryview(chunk)),
                  ("memoryview-slice-of-bytes", memoryview(image)[p:]), ("memoryview-slice-of-bytearray", memoryview(whole_ba)[p:]),
                  ("memoryview-of-bytearray", memoryview(bytearray(chunk))),
                  # subclasses of the bytes-like built-ins, and the library's OWN bytes values (the output of one parse used
                  # as the input of the next): bytes-like objects like any other
                  ("bytes-subclass", _BytesSub(chunk)), ("bytearray-subclass", _ByteArraySub(chunk))]
        if chunk and not issubclass(root, bytes):
            try:
                kinds_.append(("char-array-value", cs2.char[len(chunk)](chunk)))
                kinds_.append(("char-array-value-of-same-cstruct", cs.char[len(chunk)](chunk)))
            except Exception:  # noqa: BLE001
                pass
        for kind, obj in kinds_:
            for form in ("call", "read", "reads", "cs.read"):
                try:
                    if form == "call":
                        v = root(obj)
                    elif form == "read":
                        v = root.read(obj)
                    elif form == "reads":
                        v = root.reads(obj)
                    elif name is not None:
                        v = cs.read(name, obj)
                    else:
                        v = root(obj)
                    g2 = ("val", _values_only(observe(v)))
                except Exception as e:  # noqa: BLE001
                    g2 = ("exc", type(e).__name__)
                stats.count("evaluations")
                stats.key(shape, 0, kind, form, ())
                if g2 != exp:
                    raise Violation("input_kinds", "kind_or_form_differs",
                                    f"{kind} via {form} of image[{p}:] gives {g2}, stream parse gave {exp}", p=p)
        _cast_views(root, name, cs, chunk, stats, p)


class _BytesSub(bytes):
    pass


class _ByteArraySub(bytearray):
    pass


def _cast_views(root, name, cs, chunk, stats, p):
    """memoryviews whose items are wider than a byte (cast to 'H', 'I', 'Q'): same bytes, but len() counts ITEMS. Views
    over the whole (trimmed) data and over exactly size-of-the-type items are parsed through every call form and compared
    with the parse of the same bytes given as a bytes object."""
    size = getattr(root, "size", None)
    for fmt, k in (("H", 2), ("I", 4), ("Q", 8)):
        datas = [chunk[: len(chunk) // k * k]]
        if isinstance(size, int) and 0 < size * k <= len(chunk):
            datas.append(chunk[: size * k])
        for data in datas:
            if not data:
                continue
            try:
                ref = ("val", _values_only(observe(root.reads(bytes(data)))))
            except Exception as e:  # noqa: BLE001
                ref = ("exc", type(e).__name__)
            for form in ("call", "read", "reads", "cs.read"):
                mv = memoryview(data).cast(fmt)
                try:
                    if form == "call":
                        v = root(mv)
                    elif form == "read":
                        v = root.read(mv)
                    elif form == "reads":
                        v = root.reads(mv)
                    elif name is not None:
                        v = cs.read(name, mv)
                    else:
                        continue
                    got = ("val", _values_only(observe(v)))
                except Exception as e:  # noqa: BLE001
                    got = ("exc", type(e).__name__)
                stats.count("evaluations")
                stats.count("probe.memoryview_with_wide_items")
                if got != ref:
                    raise Violation("input_kinds", "kind_or_form_differs",
                                    f"memoryview cast to {fmt!r} ({len(mv)} items, {len(data)} bytes) via {form} gives {got}, the same bytes as a bytes object give {ref}", p=p)


def shrink_candidates(case, vinfo):
    for i in range(len(case["ops"])):
        c = copy.deepcopy(case)
        del c["ops"][i]
        yield c
    for k in ("pre", "gap", "suf"):
        if case[k]:
            c = copy.deepcopy(case)
            c[k] = 0 if case[k] <= 16 else case[k] // 2 // 16 * 16
            c["image"] = None
            yield c
    for d in gen.shrink_defs(case["defs"]):
        c = copy.deepcopy(case)
        c["defs"] = d
        c["image"] = None
        yield c
    for k in ("align", "compiled"):
        if case["cfg"][k]:
            c = copy.deepcopy(case)
            c["cfg"][k] = False
            c["image"] = None
            yield c
