"""C10 - expressions evaluate with C precedence and associativity, repeatably (engine E-EXPR)."""
from __future__ import annotations

import copy
import random

from sim.core import Discard, Violation

ID = "C10"
LEVEL = "exploration"
TIERS = {"quick": {"runs": 60000, "budget_s": 70, "chunk": 300, "min_runs": 2000},
         "thorough": {"runs": 8000000, "budget_s": 1200, "chunk": 1000, "min_runs": 50000}}
RULE = ("case = seeded (pool of 1-4 well-formed expression texts from the statement's grammar, 1-14 tokens, random blanks; constants; "
        "two sizeof-able types; history of 4-24 ops on the SAME Expression objects: evaluate with full/partial/empty context, "
        "evaluations that fail half-way (unbound identifier, division by zero), constant redefinition, the same expression "
        "embedded as array length / enum value / #define and exercised through parses). evaluations = evaluate() calls "
        "compared. distinct_nontrivial = distinct (operator skeleton of the expression, history kind in {first, repeat, other "
        "context, after failure, after redefine, via parse}) pairs.")
SPLIT = {"decided_by_search": "repeatability of one Expression object across histories (same/different context, after failed "
                              "evaluations, after constant redefinition, shared through array types)",
         "rides_on_oracle": "C precedence/associativity of each single evaluation (reference: precedence-climbing evaluator, "
                            "cross-checked against Python's own parser at generation time); sampled, not enumerated exhaustively"}
ASSUMPTIONS = [
    "/ or % with a negative operand, shifts by a negative or > 256 amount, and magnitudes above 2**512 are unspecified by the "
    "statement: the reference answers 'unconstrained' and only reused-vs-fresh agreement is checked.",
    "An identifier bound neither in the context nor in the constants, and division by zero, must raise (any exception).",
    "Bounded-exhaustive enumeration of short token sequences (mentioned in the quantifier) is not attempted: this family samples.",
]
REAL = ["dissect.cstruct ExpressionTokenizer/Expression, TokenParser (array lengths, enum values, #define)"]
STUBS = ["none (reference evaluator is the oracle)"]

BIN = ["*", "/", "%", "+", "-", "<<", ">>", "&", "^", "|"]
PREC = {"|": 0, "^": 1, "&": 2, "<<": 3, ">>": 3, "+": 4, "-": 4, "*": 5, "/": 5, "%": 5}
# some identifiers are ALSO type names (u8 is a built-in synonym, T3 and W2 are user types): sizeof(name) means the type even
# when a constant or a context value of that spelling exists, a bare name means the value
IDENTS = ["a", "b", "n", "x1", "_k", "len", "N", "u8", "ul", "Ab_9", "l", "U", "u", "T3", "W2"]
SIZEOF_TYPES = {"uint16": 2, "T3": 3, "uint64": 8, "DWORD": 4, "BYTE": 1, "QWORD": 8, "T3alias": 3, "W2": 2, "int24": 3, "u8": 8}
BIG = 1 << 512


# ---------------------------------------------------------------- generation

def gen_literal(rng):
    v = rng.choice([0, 1, 2, 3, 4, 5, 7, 8, 10, 15, 16, 31, 64, 100, 255, 256, 1000, 65535, rng.randrange(1 << 20)])
    form = rng.random()
    if form < 0.5:
        s = str(v)
    elif form < 0.75:
        s = ("0x" if rng.random() < 0.7 else "0X") + (f"{v:x}" if rng.random() < 0.6 else f"{v:X}")
    elif form < 0.88:
        s = "0" + f"{v:o}" if v else "0"
    else:
        s = ("0b" if rng.random() < 0.7 else "0B") + f"{v:b}"
    if rng.random() < 0.25:
        s += rng.choice(["u", "U", "l", "L", "ul", "UL", "ull", "ULL", "lu", "LU", "ll", "llu", "uLL"])
    return s, v


def gen_tokens(rng, depth=0, budget=None):
    """-> list of (text, kind, value?) tokens for a well-formed expression."""
    if budget is None:
        budget = [rng.randint(1, 8)]
    out = gen_unary(rng, depth, budget)
    while budget[0] > 0 and rng.random() < 0.75:
        budget[0] -= 1
        out.append((rng.choice(BIN), "bin"))
        out += gen_unary(rng, depth, budget)
    return out


def gen_unary(rng, depth, budget):
    r = rng.random()
    if r < 0.14 and depth < 6:
        return [(rng.choice(["-", "~"]), "un")] + gen_unary(rng, depth + 1, budget)
    if r < 0.28 and depth < 3:
        return [("(", "lp")] + gen_tokens(rng, depth + 1, budget) + [(")", "rp")]
    if r < 0.34:
        return [("sizeof", "sizeof"), ("(", "lp"), (rng.choice(list(SIZEOF_TYPES)), "type"), (")", "rp")]
    if r < 0.62:
        return [(rng.choice(IDENTS), "id")]
    s, v = gen_literal(rng)
    return [(s, "lit", v)]


def render(tokens, rng):
    out = []
    for i, t in enumerate(tokens):
        out.append(t[0])
        if i + 1 < len(tokens):
            nxt = tokens[i + 1]
            need = t[1] in ("id", "lit", "type", "sizeof") and nxt[1] in ("id", "lit", "type", "sizeof")
            r = rng.random()
            if need or r < 0.35:
                out.append(rng.choice([" ", " ", "  ", "\t"]))
    return "".join(out)


def gen_case(rng: random.Random, tier: str):
    exprs = []
    for _ in range(rng.randint(1, 4)):
        toks = gen_tokens(rng)
        exprs.append({"tokens": [list(t) for t in toks], "text": render(toks, rng)})
    consts = {n: rng.choice([0, 1, 2, 3, 5, 8, 13, 255]) for n in rng.sample(IDENTS, rng.randint(0, 6))}
    ops = []
    for _ in range(rng.randint(4, 24)):
        r = rng.random()
        e = rng.randrange(len(exprs))
        if r < 0.55:
            mode = rng.choice(["all", "all", "some", "none", "zeros"])
            ctx = {}
            for n in IDENTS:
                if mode == "all" or (mode == "some" and rng.random() < 0.6):
                    ctx[n] = rng.choice([0, 1, 2, 3, 4, 7, 9, 200, 65536])
                elif mode == "zeros":
                    ctx[n] = 0
            ops.append({"op": "eval", "e": e, "ctx": ctx})
        elif r < 0.7:
            ops.append({"op": "define", "name": rng.choice(IDENTS), "v": rng.choice([0, 1, 2, 4, 6, 100])})
        elif r < 0.8:
            ops.append({"op": "undefine", "name": rng.choice(IDENTS)})
        elif r < 0.93:
            ops.append({"op": "parse_len", "e": e, "n": rng.randrange(6), "m": rng.randrange(6),
                        "ntype": rng.choice(["uint8", "uint8", "LE8", "LF8", "int8"])})
        else:
            ops.append({"op": "embed", "e": e, "how": rng.choice(["define", "enum"])})
    return {"exprs": exprs, "consts": consts, "ops": ops}


# ---------------------------------------------------------------- reference evaluator (precedence climbing)

class _Err(Exception):
    pass


class _Bot(Exception):
    pass


def ref_eval(tokens, lookup):
    """tokens: [(text, kind, value?)]; lookup(name) -> int or None. Returns ('val', v) | ('err',) | ('bot',)."""
    pos = [0]
    flags = {"bot": False, "err": False}

    def peek():
        return tokens[pos[0]] if pos[0] < len(tokens) else None

    def take():
        t = tokens[pos[0]]
        pos[0] += 1
        return t

    def apply(op, a, b):
        if op in ("<<", ">>") and (b is None or b > 4096):
            # a shift count that is unknown (depends on an unspecified sub-result) or enormous: never handed to the library
            flags["bot"] = True
            if op == "<<":
                flags["huge"] = True
            return None
        if a is None or b is None:
            return None
        if op in ("/", "%"):
            if a < 0 or b < 0:
                flags["bot"] = True
                return None
            if b == 0:
                flags["err"] = True
                return None
            return a // b if op == "/" else a % b
        if op in ("<<", ">>"):
            if b < 0 or b > 256:
                flags["bot"] = True
                if b > 4096:
                    flags["huge"] = True
                return None
            return a << b if op == "<<" else a >> b
        r = {"*": a * b, "+": a + b, "-": a - b, "&": a & b, "^": a ^ b, "|": a | b}[op]
        if abs(r) > BIG:
            flags["bot"] = True
            return None
        return r

    def unary():
        t = take()
        if t[1] == "un":
            v = unary()
            if v is None:
                return None
            return -v if t[0] == "-" else ~v
        if t[1] == "lp":
            v = expr(0)
            take()
            return v
        if t[1] == "sizeof":
            take()
            name = take()[0]
            take()
            return SIZEOF_TYPES[name]
        if t[1] == "lit":
            return t[2]
        v = lookup(t[0])
        if v is None:
            flags["unbound"] = True
            return None
        return v

    def expr(minp):
        lhs = unary()
        while True:
            t = peek()
            if t is None or t[1] != "bin" or PREC[t[0]] < minp:
                return lhs
            take()
            rhs = expr(PREC[t[0]] + 1)
            lhs = apply(t[0], lhs, rhs)

    v = expr(0)
    if flags.get("huge"):
        return ("huge",)
    if flags.get("unbound"):
        return ("err",)
    if flags["bot"]:
        return ("bot",)
    if flags["err"]:
        return ("err",)
    return ("val", v)


def python_eval(tokens, lookup):
    """Second opinion on precedence through Python's own parser (same relative precedences for these operators)."""
    parts = []
    for t in tokens:
        if t[1] == "lit":
            parts.append(f"({t[2]})")
        elif t[1] == "id":
            parts.append(f"({lookup(t[0])})")
        elif t[1] == "sizeof":
            parts.append("")
        elif t[1] == "type":
            parts[-1] = ""  # the '(' of sizeof
            parts.append(f"({SIZEOF_TYPES[t[0]]}")
        elif t[0] == "/":
            parts.append("//")
        else:
            parts.append(t[0])
    return eval(" ".join(parts), {"__builtins__": {}})  # noqa: S307 - harness-generated arithmetic only


# ---------------------------------------------------------------- execution

def skeleton(tokens):
    return " ".join(t[0] if t[1] in ("bin", "un", "lp", "rp", "sizeof") else t[1][0] for t in tokens)


def run_case(case, stats):
    from dissect.cstruct import cstruct
    from dissect.cstruct.expression import Expression

    cs = cstruct()
    cs.load("struct T3 { uint8 a; uint16 b; };")
    # field types whose parsed values are not plain ints: enum and flag members (the evaluator must use their integer value)
    cs.load("enum LE8 : uint8 { LEa = 1, LEb = 2, LEc = 4 }; flag LF8 : uint8 { LFa = 1, LFb = 2, LFc = 4 };")
    cs.add_type("T3alias", "T3")   # aliases stored as names in the type table (string -> string -> type)
    cs.add_type("W2", "WORD")
    consts = dict(case["consts"])
    for n, v in consts.items():
        cs.consts[n] = v
    exprs = []
    for e in case["exprs"]:
        toks = [tuple(t) for t in e["tokens"]]
        try:
            obj = Expression(cs, e["text"])
        except Exception as ex:  # noqa: BLE001
            raise Violation("wellformed_rejected", "tokenizer_raised", f"{e['text']!r}: {type(ex).__name__}: {ex}")
        exprs.append((toks, e["text"], obj))
    state = {}  # expr index -> last history kind

    def lookup_for(ctx):
        def lk(name):
            if name in ctx:
                return ctx[name]
            return consts.get(name)
        return lk

    def outcome(fn):
        try:
            v = int(fn())
        except Exception as ex:  # noqa: BLE001
            return ("exc", type(ex).__name__)
        if abs(v) >> 4096:
            return ("val", "huge:%d bits" % v.bit_length())
        return ("val", v)

    def check(ei, ctx, how, got_reused):
        toks, text, obj = exprs[ei]
        ref = ref_eval(toks, lookup_for(ctx))
        # self-check of the reference against Python's parser
        if ref[0] == "val":
            try:
                pv = python_eval(toks, lookup_for(ctx))
            except Exception:  # noqa: BLE001
                pv = None
            if pv is not None and pv != ref[1]:
                raise RuntimeError(f"reference evaluator disagrees with python on {text!r}: {ref[1]} vs {pv}")
        fresh = None
        if ref[0] != "bot" or True:
            fresh = outcome(lambda: Expression(cs, text).evaluate(dict(ctx)))
        stats.count("evaluations")
        hist = state.get(ei, "first")
        stats.key(skeleton(toks), hist if how == "eval" else how)
        stats.count("probe.ref_" + ref[0])
        stats.log(ei, how, got_reused, ref)
        if got_reused != fresh and not (got_reused[0] == "exc" and fresh[0] == "exc"):
            raise Violation("repeatable", "reused_object_differs_from_fresh",
                            f"{text!r} ctx={ctx} consts={consts} history={hist}: reused object gave {got_reused}, fresh object {fresh}", expr=ei)
        if ref[0] == "val":
            if got_reused != ("val", ref[1]):
                raise Violation("c_semantics", "value", f"{text!r} ctx={ctx} consts={consts}: library {got_reused}, C semantics {ref[1]}", expr=ei)
        elif ref[0] == "err":
            if got_reused[0] != "exc":
                raise Violation("c_semantics", "error_expected", f"{text!r} ctx={ctx} consts={consts}: library returned {got_reused} but an "
                                                                 "identifier is unbound or a division by zero occurs", expr=ei)
            stats.count("fault.evaluation_failed_" + got_reused[1])
        return ref, got_reused

    for op in case["ops"]:
        k = op["op"]
        stats.count("steps")
        if k == "eval":
            toks, text, obj = exprs[op["e"]]
            if ref_eval(toks, lookup_for(op["ctx"]))[0] == "huge":
                stats.count("probe.skipped_huge_shift")
                continue  # a shift by more than 4096 bits: not executed (memory), unspecified anyway
            if op["ctx"]:
                got = outcome(lambda: obj.evaluate(dict(op["ctx"])))
            else:
                got = outcome(lambda: obj.evaluate())  # no context at all, as the definition parser calls it
            ref, _ = check(op["e"], op["ctx"], "eval", got)
            prev_ctx = state.get(("ctx", op["e"]))
            if got[0] == "exc":
                state[op["e"]] = "after_failure"
            elif prev_ctx is not None and prev_ctx != op["ctx"]:
                state[op["e"]] = "other_context"
            else:
                state[op["e"]] = "repeat"
            state[("ctx", op["e"])] = op["ctx"]
        elif k == "define":
            consts[op["name"]] = op["v"]
            cs.consts[op["name"]] = op["v"]
            for ei in range(len(exprs)):
                state[ei] = "after_redefine"
        elif k == "undefine":
            consts.pop(op["name"], None)
            cs.consts.pop(op["name"], None)
            for ei in range(len(exprs)):
                state[ei] = "after_redefine"
        elif k == "parse_len":
            toks, text, obj = exprs[op["e"]]
            ctx = {"n": op["n"], "m": op["m"]}
            ref = ref_eval(toks, lookup_for(ctx))
            # the expression as array length of a structure: evaluated through BaseArray._read on the shared object
            ntype = op.get("ntype", "uint8")
            sname = f"L{op['e']}_{ntype}"
            if sname not in state:
                # the parser folds a length that evaluates without any field context at load time; only lengths that
                # cannot be folded (they need n/m) stay live expressions on the array type
                fold = ref_eval(toks, lookup_for({}))
                if fold[0] in ("huge", "bot") or (fold[0] == "val" and fold[1] > 64):
                    state[sname] = False  # never load a folded length that is unspecified or large (memory)
                    continue
                try:
                    cs.load(f"struct {sname} {{ {ntype} n; uint8 m; uint8 d[{text}]; uint8 tail; }};")
                    state[sname] = fold[0] == "err"
                    stats.count("probe.length_live" if state[sname] else "probe.length_folded_at_load")
                except Exception as ex:  # noqa: BLE001
                    state[sname] = False
                    stats.count("probe.embed_load_failed_" + type(ex).__name__)
            if not state[sname]:
                continue
            if ref[0] in ("bot", "huge") or (ref[0] == "val" and ref[1] > 64):
                continue
            data = bytes([op["n"], op["m"]]) + bytes(range(1, 80))
            t = getattr(cs, sname)
            try:
                v = t(data)
                got = ("val", len(v.d), int(v.tail))
            except Exception as ex:  # noqa: BLE001
                got = ("exc", type(ex).__name__)
            stats.count("evaluations")
            stats.key(skeleton(toks), "via_parse")
            if ref[0] == "val":
                want = max(0, ref[1])
                if got != ("val", want, data[2 + want]):
                    raise Violation("c_semantics", "array_length", f"uint8 d[{text}] with n={op['n']} m={op['m']} consts={consts}: "
                                                                   f"got {got}, expected length {want}", expr=op["e"])
            elif got[0] != "exc":
                raise Violation("c_semantics", "error_expected", f"uint8 d[{text}] n={op['n']} m={op['m']} consts={consts}: parse returned {got} "
                                                                 "but the length expression cannot be evaluated", expr=op["e"])
            state[op["e"]] = "via_parse"
        elif k == "embed":
            toks, text, obj = exprs[op["e"]]
            ref = ref_eval(toks, lookup_for({}))
            if ref[0] != "val" or "\t" in text:
                continue
            state["embeds"] = state.get("embeds", 0) + 1
            nm = f"EM{state['embeds']}"
            try:
                if op["how"] == "define":
                    cs.load(f"#define {nm} {text}\n")
                    got = cs.consts[nm]
                    consts[nm] = ref[1]
                else:
                    cs.load(f"enum {nm}e : uint64 {{ {nm}a = 1, {nm} = {text} }};")
                    got = int(getattr(cs, nm + "e")[nm].value)
            except Exception as ex:  # noqa: BLE001
                got = ("exc", type(ex).__name__, str(ex)[:80])
            stats.count("evaluations")
            stats.key(skeleton(toks), "embed_" + op["how"])
            if op["how"] == "enum" and ("," in text):
                continue
            if got != ref[1]:
                raise Violation("c_semantics", "embedded_" + op["how"], f"{op['how']} {nm} = {text!r} consts={consts}: got {got}, expected {ref[1]}", expr=op["e"])


def shrink_candidates(case, vinfo):
    ei = vinfo.get("expr")
    if ei is not None and len(case["exprs"]) > 1:
        c = copy.deepcopy(case)
        c["exprs"] = [case["exprs"][ei]]
        c["ops"] = [dict(o, e=0) for o in case["ops"] if o.get("e", ei) == ei]
        yield c
    for i in range(len(case["ops"]) - 1, -1, -1):
        c = copy.deepcopy(case)
        del c["ops"][i]
        yield c
    for n in list(case["consts"]):
        c = copy.deepcopy(case)
        del c["consts"][n]
        yield c
    for i, o in enumerate(case["ops"]):
        if o["op"] == "eval":
            for n in list(o["ctx"]):
                c = copy.deepcopy(case)
                del c["ops"][i]["ctx"][n]
                yield c
