"""C11 - union members are coherent views of one byte buffer (engine E-UNION)."""
from __future__ import annotations

import copy
import io
import random

from sim import gen
from sim.core import Discard, Violation
from sim.observe import observe, values_only

ID = "C11"
LEVEL = "exploration"
TIERS = {"quick": {"runs": 40000, "budget_s": 75, "chunk": 100, "min_runs": 500},
         "thorough": {"runs": 2000000, "budget_s": 1200, "chunk": 300, "min_runs": 10000}}
RULE = ("case = seeded (fixed-size union definition: scalar, array, char-array, enum, pointer members, nested and anonymous structs "
        "to depth 3, nested unions; packed or aligned; optionally held inside a structure; initial content from parsing random "
        "bytes, default construction or keyword construction; history of 1-12 ops: assignment to a member, to a field of a nested "
        "struct through one or two levels, to a folded field of an anonymous member, whole-array assignment, dumps, re-parse). "
        "Model = one bytearray; after EVERY op every member must observe what a stand-alone parse of its type from the model "
        "bytes observes, and dumps() must equal the model on all bytes that carry data in some member. evaluations = ops "
        "checked. distinct_nontrivial = distinct (union shape digest, assigned location kind+depth, init kind) tuples.")
ASSUMPTIONS = [
    "Offsets of fields inside nested structures and the alignment of the union are taken from the library's own field table "
    "(layout is C04, not claimed); the encoding of an assigned value is MemberType.dumps(value) (codecs are C05).",
    "Only in-range values are assigned; dynamic unions are outside the statement.",
    "Bytes that are padding in every member are not compared in dumps().",
    "After an assignment below member m, bytes inside m's extent that are padding in m may be old or zero (the library rewrites "
    "the whole member; 'the new bytes of that member' is read at member granularity).",
    "Interpreted readers only (compiled=False); no wchar members (arbitrary union bytes need not be valid UTF-16) and no floats (NaN payloads); no flags and "
    "no enums over byte-sliced integer types (C12/C03 matters); no bit-field assignments (C06).",
]
REAL = ["dissect.cstruct Union/UnionProxy/_rebuild/_update, structure writers and readers"]
STUBS = ["bytearray reference model of the union buffer"]


def gen_case(rng: random.Random, tier: str):
    cfg = gen.gen_config(rng)
    cfg["compiled"] = False  # unions are never compiled; compiled readers of nested structs vs the writer is C03's matter
    sw = gen.gen_swarm(rng)
    sw.update({"union": True, "nested": True, "eof": False, "leb": False, "dynunion": False, "wchar": False, "float": False})
    sw["discard"] = False  # repeated '_' fields share one attribute: dumping them is deliberately not byte-faithful
    sw["bits"] = False  # dumping bit-fields is C06; a signed storage unit with its top bit set cannot be dumped at all
    for k in ("anon", "array", "enum"):
        if rng.random() < 0.5:
            sw[k] = True
    g = gen.DefGen(rng, swarm=sw, max_fields=4, fixed_only=True, max_depth=3, plain_enums=True)
    if rng.random() < 0.5:
        g.struct(depth=0, kind="struct")
    g.struct(depth=0, kind="union", root=True)
    defs = {"defines": g.defines, "enums": g.enums, "typedefs": g.typedefs, "structs": g.structs}
    root = defs["structs"][-1]
    locs = [p for p in gen.leaf_paths(defs, root) if p["kind"] not in ("struct", "union") or p["dims"]]
    ops = []
    for _ in range(rng.randint(1, 12)):
        r = rng.random()
        if r < 0.75 and locs:
            p = rng.choice(locs)
            if p["dims"] and rng.random() < 0.3:
                # the in-place idiom: fetch the member's list, change one element in place, assign the SAME object back
                ops.append({"op": "set_array", "path": p["path"], "seed": rng.getrandbits(30), "inplace": rng.randrange(8)})
            elif p["dims"]:
                ops.append({"op": "set_array", "path": p["path"], "seed": rng.getrandbits(30)})
            else:
                v = gen.gen_value(rng, defs, p)
                if v is not None:
                    ops.append({"op": "set", "path": p["path"], "val": v})
                    if len(p["path"]) == 1 and rng.random() < 0.15:
                        # the same assignment on a shallow COPY of the union (copy.copy): the original must not follow
                        ops[-1]["on_copy"] = True
        elif r < 0.88:
            ops.append({"op": "dumps"})
        else:
            ops.append({"op": "reparse"})
    kw = None
    tops = [p for p in locs if len(p["path"]) == 1 and not p["dims"] and p["path"][0] in [f["name"] for f in root["fields"]]]
    if tops:
        p = rng.choice(tops)
        v = gen.gen_value(rng, defs, p)
        if v is not None:
            kw = {"path": p["path"], "val": v, "positional": rng.random() < 0.3 and p["path"][0] == root["fields"][0]["name"] and v["k"] in ("int", "enum")}
    # a union EXTENDED through the Python API after it was declared (and, mostly, already used): one more member, wider
    # than all declared ones, added with add_field()
    grow = None
    if rng.random() < 0.2:
        grow = {"g": rng.randint(1, 5), "t": rng.choice(["uint8", "char", "uint16"]), "pre": rng.random() < 0.8,
                "batch": rng.random() < 0.4}
        for _ in range(rng.randint(0, 3)):
            ops.insert(rng.randint(0, len(ops)), {"op": "set_array", "path": ["zz_wide"], "seed": rng.getrandbits(30)})
    return {"cfg": cfg, "defs": defs, "init": rng.choice(["parse", "parse", "default", "kw"]), "seed": rng.getrandbits(32),
            "holder": rng.random() < 0.3, "ops": ops, "kw": kw, "grow": grow}


def _walk(t, base, path, out, mask, depth=0):
    """Collect leaf locations {path tuple: (abs offset, type)} and mark data-carrying bytes."""
    from dissect.cstruct.types import Structure

    for f in t.__fields__:
        off = base + (f.offset or 0)
        p = path if f.name is None else path + (f._name,)
        ft = f.type
        if isinstance(ft, type) and issubclass(ft, Structure) and depth < 6:
            if f.name is not None:
                out[p] = (off, ft, f)
            _walk(ft, off, p, out, mask, depth + 1)
        elif (hasattr(ft, "num_entries") and isinstance(getattr(ft, "num_entries", None), int) and isinstance(getattr(ft, "type", None), type)
              and issubclass(ft.type, Structure) and ft.type.size and depth < 6):
            out[p] = (off, ft, f)
            for j in range(ft.num_entries):
                _walk(ft.type, off + j * ft.type.size, p + (f"[{j}]",), {}, mask, depth + 1)
        else:
            out[p] = (off, ft, f)
            if f.bits:
                sz = ft.type.size if hasattr(ft, "type") and not hasattr(ft, "num_entries") and ft.__class__.__name__ == "EnumMetaType" else ft.size
            else:
                sz = ft.size
            for i in range(off, off + (sz or 0)):
                if i < len(mask):
                    mask[i] = 1


def _struct_array(t):
    from dissect.cstruct.types import Structure

    return (isinstance(t, type) and isinstance(getattr(t, "num_entries", None), int) and isinstance(getattr(t, "type", None), type)
            and issubclass(t.type, Structure) and bool(t.type.size))


def _dump_mask(t, base, mask, depth=0):
    """Bytes that receive data when the library dumps a value of type t: a union is dumped from its largest member only
    (regular members win ties), a structure from all its fields."""
    from dissect.cstruct.types import Structure, Union

    if depth > 8:
        return
    if isinstance(t, type) and issubclass(t, Union):
        fs = sorted(t.__fields__, key=lambda f_: (f_.type.size or 0, f_.name is not None), reverse=True)
        if fs:
            _dump_mask(fs[0].type, base, mask, depth + 1)
    elif isinstance(t, type) and issubclass(t, Structure):
        for f in t.__fields__:
            _dump_mask(f.type, base + (f.offset or 0), mask, depth + 1)
    elif _struct_array(t):
        for j in range(t.num_entries):
            _dump_mask(t.type, base + j * t.type.size, mask, depth + 1)
    else:
        for i in range(base, base + (getattr(t, "size", 0) or 0)):
            if i < len(mask):
                mask[i] = 1


def _tolerated(U, path, size):
    """Positions that a rebuild along `path` may zero: for every union on the way, extent minus data of the member entered."""
    from dissect.cstruct.types import Structure, Union

    out = set()
    t, base, i = U, 0, 0
    for _ in range(16):
        if not (isinstance(t, type) and issubclass(t, Structure)) or i >= len(path):
            break
        f = next((x for x in t.__fields__ if x.name is not None and x._name == path[i]), None)
        consumed = 1
        if f is None:
            f = next((x for x in t.__fields__ if x.name is None and isinstance(x.type, type) and issubclass(x.type, Structure)
                      and path[i] in x.type.fields), None)
            consumed = 0
        if f is None:
            break
        off = base + (f.offset or 0)
        if issubclass(t, Union) and isinstance(f.type, type) and issubclass(f.type, Structure):
            data = bytearray(size)
            _walk(f.type, off, (), {}, data)
            out.update(j for j in range(off, min(size, off + (f.type.size or 0))) if not data[j])
        t, base, i = f.type, off, i + consumed
    return out


def _lossy_positions(t, base, out, size, depth=0):
    """Root-relative byte positions that carry data in some member of a (nested) union but are padding in the member that
    union is dumped from: the library's dump of such a union writes zero there (recorded known finding)."""
    from dissect.cstruct.types import Structure, Union

    if depth > 8:
        return
    if _struct_array(t):
        for j in range(t.num_entries):
            _lossy_positions(t.type, base + j * t.type.size, out, size, depth + 1)
        return
    if not (isinstance(t, type) and issubclass(t, Structure)):
        return
    if issubclass(t, Union):
        data = bytearray(size)
        _walk(t, base, (), {}, data)
        dump = bytearray(size)
        _dump_mask(t, base, dump)
        out.update(i for i in range(size) if data[i] and not dump[i])
    for f in t.__fields__:
        _lossy_positions(f.type, base + (f.offset or 0), out, size, depth + 1)


def run_case(case, stats):
    from dissect.cstruct.types import Structure

    cfg = case["cfg"]
    try:
        cs = gen.make_cs(cfg, gen.render(case["defs"]))
        U = getattr(cs, case["defs"]["structs"][-1]["name"])
    except Exception as ex:  # noqa: BLE001
        raise Discard("load_fail_" + type(ex).__name__)
    if U.dynamic or U.size is None:
        raise Discard("dynamic_union")
    # stand-alone member parses are done with the types of a SECOND cstruct object (same definitions), so that the reference
    # shares no state with the union under test
    csref = gen.make_cs(cfg, gen.render(case["defs"]))
    Uref = getattr(csref, case["defs"]["structs"][-1]["name"])
    grow = case.get("grow")
    if grow:
        if grow["pre"]:
            # the declared union is used before it is extended: whatever it remembers from that must not survive
            for fn_ in (lambda: U(bytes(U.size)).dumps(), lambda: U().dumps(), lambda: len(U), lambda: U(bytes(U.size)) == U()):
                try:
                    fn_()
                except Exception:  # noqa: BLE001
                    pass
        n_el = -(-(U.size + grow["g"]) // gen.SIZES[grow["t"]])
        try:
            for c_, T_ in ((cs, U), (csref, Uref)):
                if grow["batch"] and T_ is U:
                    with T_.start_update():
                        T_.add_field("zz_wide", c_.resolve(grow["t"])[n_el])
                else:
                    T_.add_field("zz_wide", c_.resolve(grow["t"])[n_el])
        except Exception as ex:  # noqa: BLE001
            raise Violation("extend", "add_field_raised", f"adding a wider member to the declared union raised {type(ex).__name__}: {ex}")
        stats.count("probe.union_extended_after_use" if grow["pre"] else "probe.union_extended_before_use")
    ref_type = {f._name: rf.type for f, rf in zip(U.__fields__, Uref.__fields__)}
    size = U.size
    # ---- size clause
    msizes = []
    for f in U.__fields__:
        msizes.append(f.type.size)
    want = max(msizes) if msizes else 0
    if cfg["align"] and U.alignment:
        want += -want & (U.alignment - 1)
    if size != want:
        raise Violation("size", "union_size", f"len(U)={size}, largest member {max(msizes)} alignment {U.alignment} -> expected {want}")
    mask = bytearray(size)
    locs = {}
    _walk(U, 0, (), locs, mask)
    # bytes that the library's way of dumping a union (largest member only, recursively) fills with data
    lossy = set()
    _lossy_positions(U, 0, lossy, size)
    if lossy:
        stats.count("probe.case_has_lossy_union_positions")

    def classify_lossy(libbytes, label, what):
        """Raise the known-finding class if the library's bytes differ from the model only by zeros at lossy positions."""
        if libbytes is None or len(libbytes) != size:
            return
        diff = [i for i in range(size) if mask[i] and libbytes[i] != model[i]]
        if diff and all(i in lossy and libbytes[i] == 0 for i in diff):
            raise Violation("dumps", "data_lost_in_padding_of_largest_member",
                            f"{label}: {what} {bytes(libbytes).hex()} vs union bytes {bytes(model).hex()}: bytes {diff} carry data in a smaller "
                            f"member of a (nested) union but are padding in its largest member, which is the one written, and come out as zero")
    shape = gen.shape_digest(case["defs"])
    rng = random.Random(case["seed"])
    # ---- initial content
    if case["init"] == "parse":
        raw = gen.gen_bytes(rng, size + 3)
        s = io.BytesIO(raw)
        try:
            u = U(s)
        except Exception as ex:  # noqa: BLE001
            raise Discard("initial_parse_raises_" + type(ex).__name__)
        if s.tell() != size:
            raise Violation("size", "parse_consumed", f"parsing consumed {s.tell()} bytes, union size is {size}")
        model = bytearray(raw[:size])
    elif case["init"] == "kw" and case.get("kw") and tuple(case["kw"]["path"]) in locs and not locs[tuple(case["kw"]["path"])][2].bits:
        kw = case["kw"]
        off, ft, fld = locs[tuple(kw["path"])]
        model = bytearray(size)
        try:
            val = gen.make_value(cs, kw["val"])
            enc = ft.dumps(val)
        except Exception:  # noqa: BLE001
            raise Discard("kw_value_not_constructible")
        try:
            u = U(val) if kw["positional"] else U(**{kw["path"][0]: val})
        except Exception as ex:  # noqa: BLE001
            raise Violation("construct", "keyword_construction_raised", f"{U.__name__}({kw['path'][0]}={val!r}) raised {type(ex).__name__}: {ex}")
        model[off:off + len(enc)] = enc
        stats.count("probe.init_keyword")
    else:
        try:
            u = U()
        except Exception as ex:  # noqa: BLE001
            raise Violation("construct", "default_construction_raised", f"{U.__name__}() raised {type(ex).__name__}: {ex}")
        model = bytearray(size)
    holder = None
    if case["holder"] and case["init"] == "parse":
        # the same union as a field of a structure: its bytes inside the holder's dump must follow the union
        try:
            cs.load(f"struct Holder {{ uint8 pre; {U.__name__} u; uint16 post; }};", compiled=False, align=cfg["align"])
            H = cs.Holder
            uoff = H.fields["u"].offset
            hraw = bytearray(gen.gen_bytes(rng, H.size))
            hraw[uoff:uoff + size] = model
            holder = H(bytes(hraw))
            u = holder.u
            stats.count("probe.union_inside_holder")
        except Exception as ex:  # noqa: BLE001
            raise Violation("construct", "holder_parse_raised", f"struct holding the union: {type(ex).__name__}: {ex}")

    def member_view(f):
        t = ref_type[f._name]
        return values_only(observe(t(io.BytesIO(bytes(model[(f.offset or 0):]))), sizes=False))

    def check(label):
        stats.count("evaluations")
        for f in U.__fields__:
            try:
                exp = member_view(f)
            except Exception:  # noqa: BLE001
                stats.count("probe.member_unparsable_from_model")
                continue
            try:
                got = values_only(observe(getattr(u, f._name), sizes=False))
            except Exception as ex:  # noqa: BLE001
                raise Violation("coherence", "member_access_raised", f"{label}: reading member {f._name} raised {type(ex).__name__}: {ex}")
            if got != exp:
                classify_lossy(getattr(u, "_buf", None), label, "union buffer after rebuild")
                raise Violation("coherence", "member_differs_from_buffer",
                                f"{label}: member {f._name} observes {got}; parsing its type from the union bytes {bytes(model).hex()} gives {exp}")

    def check_dumps(label):
        try:
            d = u.dumps()
        except Exception as ex:  # noqa: BLE001
            raise Violation("dumps", "raised", f"{label}: dumps raised {type(ex).__name__}: {ex}")
        stats.count("evaluations")
        if len(d) != size:
            raise Violation("dumps", "length", f"{label}: dumps gave {len(d)} bytes, union size {size}")
        if holder is not None:
            hd = holder.dumps()
            if hd[uoff:uoff + size] != d:
                raise Violation("dumps", "holder_dump_disagrees_with_union_dump", f"{label}: holder dumps {hd.hex()} but union dumps {d.hex()} at offset {uoff}")
        bad = [i for i in range(size) if mask[i] and d[i] != model[i]]
        if bad:
            classify_lossy(d, label, "dumps")
        if bad:
            raise Violation("dumps", "bytes_differ_from_buffer", f"{label}: dumps {d.hex()} vs union bytes {bytes(model).hex()} at {bad} "
                                                                 f"(data mask {bytes(mask).hex()})")

    check("initial " + case["init"])
    for oi, op in enumerate(case["ops"]):
        k = op["op"]
        stats.count("steps")
        label = f"op #{oi} {op}"
        if k in ("set", "set_array"):
            loc = locs.get(tuple(op["path"]))
            if loc is None:
                continue
            off, ft, fld = loc
            if fld.bits:
                continue  # bit-field packing inside a unit is C06
            if k == "set":
                try:
                    val = gen.make_value(cs, op["val"])
                except Exception:  # noqa: BLE001 - e.g. flag classes with duplicate members cannot build pseudo-members (C12)
                    stats.count("probe.value_not_constructible")
                    continue
            else:
                try:
                    val = ft(io.BytesIO(gen.gen_bytes(random.Random(op["seed"]), ft.size + 2)))
                except Exception:  # noqa: BLE001
                    continue
            try:
                enc = ft.dumps(val)
            except Exception:  # noqa: BLE001
                continue
            if len(enc) != ft.size:
                continue
            parent = u
            if op.get("on_copy") and len(op["path"]) == 1 and op["path"][0] in {f_._name for f_ in U.__fields__} and holder is None:
                import copy as _copy

                try:
                    twin = _copy.copy(u)
                    setattr(twin, op["path"][0], val)
                except Exception as ex:  # noqa: BLE001
                    raise Violation("assign", "raised_" + type(ex).__name__, f"{label}: assignment on copy.copy(u) raised {type(ex).__name__}: {ex}")
                stats.count("probe.assignment_on_shallow_copy")
                check(label + " (assigned on a shallow copy: the original keeps its bytes)")
                check_dumps(label + " (assigned on a shallow copy)")
                continue
            try:
                for name in op["path"][:-1]:
                    parent = getattr(parent, name)
                if op.get("inplace") is not None:
                    held = getattr(parent, op["path"][-1])
                    if isinstance(held, list) and held and isinstance(val, list) and len(val) == len(held):
                        j_ = op["inplace"] % len(held)
                        held[j_] = val[j_]
                        val = held  # the very object the member already holds, edited in place
                        enc = ft.dumps(val)
                        stats.count("probe.in_place_edit_then_write_back")
                setattr(parent, op["path"][-1], val)
            except Exception as ex:  # noqa: BLE001
                raise Violation("assign", "raised_" + type(ex).__name__,
                                f"{label}: assignment u.{'.'.join(op['path'])} = {val!r} raised {type(ex).__name__}: {ex}", depth=len(op["path"]))
            model[off:off + len(enc)] = enc
            # the library rewrites whole members: at every union level on the path, bytes inside the extent of the member the
            # path goes through that are padding IN THAT MEMBER may come out as zero ("the new bytes of that member")
            lib = getattr(u, "_buf", None)
            if lib is not None and len(lib) == size:
                for i in _tolerated(U, op["path"], size):
                    if lib[i] == 0 and model[i] != 0:
                        model[i] = 0
                        stats.count("probe.member_padding_zeroed_by_rebuild")
            anon = tuple(op["path"]) not in {(f._name,) for f in U.__fields__} and len(op["path"]) == 1
            stats.key(shape, "array" if k == "set_array" else "scalar", len(op["path"]), anon, case["init"])
            stats.count("probe.assign_depth_%d%s" % (len(op["path"]), "_folded" if anon else ""))
            check(label)
            check_dumps(label)
        elif k == "dumps":
            check_dumps(label)
        elif k == "reparse":
            check_dumps(label)
            holder = None
            try:
                d = u.dumps()
                u = U(d)
            except Exception as ex:  # noqa: BLE001
                raise Violation("dumps", "reparse_raised", f"{label}: {type(ex).__name__}: {ex}")
            for i in range(size):
                if not mask[i]:
                    model[i] = d[i]
            check(label)
        stats.log(k)


def shrink_candidates(case, vinfo):
    for i in range(len(case["ops"]) - 1, -1, -1):
        c = copy.deepcopy(case)
        del c["ops"][i]
        yield c
    for d in gen.shrink_defs(case["defs"]):
        c = copy.deepcopy(case)
        c["defs"] = d
        yield c
    if case["init"] != "default":
        c = copy.deepcopy(case)
        c["init"] = "default"
        yield c
    for k in ("align", "compiled"):
        if case["cfg"][k]:
            c = copy.deepcopy(case)
            c["cfg"][k] = False
            yield c


def known_match(case, vinfo, match):
    """A recorded finding is identified by the structural violation class the harness computes (all differing bytes lie at
    positions that are data in a smaller member and padding in the member a (nested) union is written from, and are zero)."""
    return bool(match) and vinfo.get("oracle") == match.get("oracle") and vinfo.get("kind") == match.get("kind")
