"""C13 - definition parsing ignores comments, spacing and order of unrelated definitions; aliases resolve to one type
(engine E-LOAD)."""
from __future__ import annotations

import copy
import io
import json
import random
import signal

from sim import gen
from sim.core import Discard, Violation
from sim.observe import layout_signature, observe

ID = "C13"
LEVEL = "exploration"
TIERS = {"quick": {"runs": 20000, "budget_s": 75, "chunk": 50, "min_runs": 300},
         "thorough": {"runs": 1000000, "budget_s": 1200, "chunk": 200, "min_runs": 5000}}
RULE = ("case = seeded (3-10 definition fragments - #define, typedef, typedef chains, enum/flag with expressions over earlier "
        "members, structs/unions using earlier fragments, 'typedef struct {..} A, B;' - with their dependency DAG; a perturbed "
        "history: dependency-respecting random order, random grouping into 1..n load() calls (15% through loadfile() from a scratch "
        "file), comments/blank/tab/LF/CR/CRLF/form-feed noise at EVERY token boundary - also between the stars of a pointer, "
        "between a name and '[', inside and between brackets and between the words of a multi-word type - and alias ops between loads: re-declare same target, re-declare other target, cyclic and dangling "
        "add_type followed by resolve / attribute access / use in a definition). The resulting world (every user name -> layout "
        "signature, enum members, constants, alias identity, parse observations on sample inputs) must equal that of the "
        "canonical history (generation order, one load, canonical spacing) in a fresh object. evaluations = histories compared "
        "+ alias ops checked. distinct_nontrivial = distinct (fragment-kind multiset, order != identity or grouping != single, "
        "noise kinds used, alias op kinds) tuples.")
SPLIT = {"decided_by_search": "order and grouping of load()/add_type() calls on the persistent typedef/constant tables; alias "
                              "re-declaration and cyclic/dangling alias resolution across sequences of calls (bounded progress)",
         "rides_as_payload_noise": "comments and white space at token boundaries of each fragment"}
ASSUMPTIONS = [
    "No noise inside array brackets, on #define lines (line-oriented, as the statement says) or between a field name and '['.",
    "Enum bodies: the repository's own tests define a newline as a member separator, so a newline inserted INSIDE one member "
    "(A <newline> = 1) changes the enum; this is recorded as a known finding, generated in ~6% of cases and recognised by re-running "
    "the case with those newlines replaced by blanks.",
    "Anonymous type names are normalised; the canonical history is the reference (differential oracle).",
    "A resolve that does not return within 5 s of wall time counts as looping.",
]
REAL = ["dissect.cstruct TokenParser, cstruct.add_type/resolve/typedef and constant tables, cstruct.loadfile",
        "the file system (scratch files for the loadfile route, written and unlinked inside the run)"]
STUBS = ["none"]

BASE = ["uint8", "int8", "uint16", "int16", "uint32", "int32", "uint64", "char", "BYTE", "DWORD", "unsigned int", "WORD", "long long", "uint24",
        "int48", "uint48", "int24"]
TAGS = ["item", "hdr", "entry"]
SYN = {"uint8": ["BYTE", "uint8_t", "UCHAR"], "uint16": ["WORD", "unsigned short", "uint16_t"], "uint32": ["DWORD", "unsigned int", "ULONG"],
       "int32": ["int", "long", "LONG"], "int16": ["short", "SHORT"], "uint64": ["QWORD", "unsigned long long"], "int8": ["INT8", "signed char"],
       "char": ["CHAR"], "BYTE": ["uint8"], "DWORD": ["uint32"], "WORD": ["uint16"], "unsigned int": ["uint32", "DWORD"],
       "long long": ["int64", "LONGLONG"], "uint24": ["uint24"]}
LINE_BREAKS = "\n\r\f\v"  # what str.splitlines() (the enum member splitter) treats as a line boundary, of the characters generated
NOISE = [" ", "  ", "\t", "\n", "\n\n  ", " /* c */ ", "/**/", "/* two\n   lines */", " // eol\n", "/* it's */", "\r\n", " // eol\r\n", "\r", "\f",
         # comment CONTENTS: runs of stars before the closing slash, comment markers and quotes inside comments
         "/** doc **/", "/***/", "/* a * b */", "/*/ x */", "/* // */", " // /* x\n", "/* \" */", "/******** banner ********/", "/* x ****/", "/* /* */",
         "/* don't */"]


# the ways a definition can refer to an (unknown or cyclic) name: all of them must report a resolve error
FIELD_USES = {
    "field_ptr": "struct {q} {{ uint8 lead; {head} *a; }};",
    "field_ptr_ptr": "struct {q} {{ {head} * *a; uint8 t; }};",
    "field_array": "struct {q} {{ {head} a[2]; }};",
    "struct_field": "struct {q} {{ struct {head} a; }};",
    "struct_field_ptr": "struct {q} {{ uint8 lead; struct {head} *a; }};",
    "struct_field_ptr_array": "struct {q} {{ struct {head} *a[2]; }};",
    "union_field_ptr": "struct {q} {{ union {head} *a; }};",
    "typedef": "typedef {head} {q}p;",
    "typedef_struct_ptr": "typedef struct {head} *{q}p;",
    "enum_base": "enum {q} : {head} {{ QA{q} }};",
}


# conflicting re-declarations of an existing type name NAME in the other syntactic forms that register a name
REDECL_FORMS = {
    "typedef_struct_tag": "typedef struct {name} {{ uint8 z; }} {fresh};",
    "typedef_union_tag": "typedef union {name} {{ uint8 z; }} {fresh};",
    "typedef_struct_tag_two": "typedef struct {name} {{ uint8 z; }} {fresh}, {fresh}b;",
    "typedef_anon_struct": "typedef struct {{ uint8 z; }} {name};",
    "typedef_struct_second_name": "typedef struct {{ uint8 z; }} {fresh}, {name};",
    "struct": "struct {name} {{ uint8 z; }};",
    "union": "union {name} {{ uint8 z; }};",
    "enum": "enum {name} : uint8 {{ Zz{fresh} }};",
    "flag": "flag {name} : uint8 {{ Zz{fresh} }};",
}


def G(text):
    """A token that follows its predecessor WITHOUT a blank in the plain rendering (noise may still be inserted there)."""
    return ("G", text)


def declarator(rng, fn, dims, stars=0):
    """Tokens of a field declarator: stars, name, one bracket group per dimension (dimension texts are split at blanks)."""
    out = []
    for k in range(stars):
        out.append("*" if k == 0 else G("*"))
    out.append(G(fn) if stars > 1 else fn)
    for d in dims:
        out.append(G("["))
        parts = d.split()
        for j, part in enumerate(parts):
            out.append(G(part) if j == 0 else part)
        out.append(G("]"))
    return out


def gen_case(rng: random.Random, tier: str):
    frags = []
    types = []      # (name, frag index) usable as field types
    consts = []     # (name, frag index, value)
    uid = [0]

    def nid(p):
        uid[0] += 1
        return f"{p}{uid[0]}"

    n = rng.randint(3, 10)
    for _ in range(n):
        r = rng.random()
        deps = set()
        idx = len(frags)
        if r < 0.15:
            nm = nid("K")
            v = rng.randint(1, 4)
            frags.append({"kind": "define", "toks": [f"#define {nm} {v}"], "deps": [], "names": [nm], "line": True})
            consts.append((nm, idx, v))
        elif r < 0.3:
            nm = nid("T")
            if types and rng.random() < 0.5:
                tn, ti = rng.choice(types)
                deps.add(ti)
            else:
                tn = rng.choice(BASE)
            base = tn if tn in BASE else next((f_["base"] for f_ in frags if f_["kind"] == "typedef" and tn in f_["names"]), None)
            frags.append({"kind": "typedef", "toks": ["typedef", *tn.split(), nm, ";"], "deps": sorted(deps), "names": [nm], "alias_of": tn,
                          "base": base})
            types.append((nm, idx))
        elif r < 0.48:
            nm = nid("E")
            kind = rng.choice(["enum", "enum", "flag"])
            base = rng.choice(["uint8", "uint16", "uint32", "int32", "uint64", "unsigned int", "unsigned short", "unsigned long long"])
            toks = [kind, nm, ":", *base.split(), "{"]
            members = []
            for j in range(rng.randint(1, 5)):
                m = nid("M")
                if consts and rng.random() < 0.12 and not any(c[0] in members for c in consts):
                    # a member that happens to be spelled like a #define loaded before or after (no dependency: inside the
                    # enum, earlier members are looked up first, so the definitions do not refer to each other)
                    m = rng.choice(consts)[0]
                if j:
                    toks.append(",")
                toks.append(("M", m))
                r2 = rng.random()
                if r2 < 0.35:
                    toks += [("=", "="), ("V", str(rng.choice([0, 1, 2, 5, 8, 16])))]
                elif r2 < 0.55 and members:
                    toks += [("=", "="), ("V", rng.choice(members)), ("V", rng.choice(["+", "|", "*"])), ("V", str(rng.randint(1, 3)))]
                elif r2 < 0.62 and consts:
                    cn, ci, _ = rng.choice(consts)
                    deps.add(ci)
                    toks += [("=", "="), ("V", cn), ("V", "+"), ("V", "1")]
                members.append(m)
            toks += ["}", ";"]
            frags.append({"kind": kind, "toks": toks, "deps": sorted(deps), "names": [nm]})
            types.append((nm, idx))
        else:
            kind = rng.choice(["struct", "struct", "struct", "union", "tstruct"])
            nm = nid("S")
            body = ["{"]
            for j in range(rng.randint(1, 5)):
                fn = nid("f")
                if types and rng.random() < 0.45:
                    tn, ti = rng.choice(types)
                    deps.add(ti)
                    tt = [tn] if not (tn.startswith("S") and rng.random() < 0.3 and frags[ti]["kind"] == "struct") else ["struct", tn]
                    is_enumlike = True
                else:
                    tn = rng.choice(BASE)
                    tt = tn.split()
                    is_enumlike = False
                r3 = rng.random()
                if r3 < 0.2:
                    dim = str(rng.randint(0, 3))
                    if consts and rng.random() < 0.5:
                        cn, ci, _ = rng.choice(consts)
                        deps.add(ci)
                        dim = rng.choice([cn, f"{cn} + 1", f"{cn} * 2"])
                    dims = [dim]
                    r4 = rng.random()
                    if r4 < 0.2:
                        dims.append(str(rng.randint(1, 2)))
                    elif r4 < 0.3 and not is_enumlike and tn in ("uint8", "uint16", "char", "BYTE", "WORD") and j == 0 and kind != "union":
                        dims = [""]  # null-terminated
                    body += [*tt, *declarator(rng, fn, dims), ";"]
                elif r3 < 0.3:
                    body += [*tt, *declarator(rng, fn, [], stars=rng.choice([1, 1, 2])), ";"]
                elif r3 < 0.4 and not is_enumlike and tn in ("uint8", "uint16", "uint32", "int32", "WORD", "DWORD", "BYTE"):
                    if rng.random() < 0.25 and not any(t_ in ("flag", "enum") for t_ in body):
                        fn = rng.choice(["flag", "enum"])  # a field spelled like a keyword of the definition language
                    body += [*tt, fn, G(":"), G(str(rng.randint(1, 3))), ";", "uint64", nid("f"), ";"]
                elif r3 < 0.5 and kind != "union":
                    body += ["struct", "{", "uint8", nid("f"), ";", *tt, nid("f"), ";", "}", fn, ";"]
                elif r3 < 0.62:
                    # a nested structure with a tag from a small pool: unrelated definitions may each have their own 'struct item'
                    inner = []
                    for _k in range(rng.randint(1, 3)):
                        inner += [rng.choice(["uint8", "uint16", "uint32", "int48", "char"]), nid("f"), ";"]
                    body += ["struct", rng.choice(TAGS), "{", *inner, "}", *declarator(rng, fn, rng.choice([[], ["2"], ["2"], ["3"]])), ";"]
                else:
                    body += [*tt, fn, ";"]
            body.append("}")
            if kind == "tstruct":
                names = [nm] + ([nid("S")] if rng.random() < 0.6 else []) + ([nid("S")] if rng.random() < 0.2 else [])
                toks = [*(["#[", G("nocompile"), G("]")] if rng.random() < 0.12 else []), "typedef", "struct", *body]
                for k, x in enumerate(names):
                    if k:
                        toks.append(",")
                    toks.append(x)
                toks.append(";")
                frags.append({"kind": "tstruct", "toks": toks, "deps": sorted(deps), "names": names})
                for x in names:
                    types.append((x, idx))
            else:
                cfgflag = ["#[", G("nocompile"), G("]")] if rng.random() < 0.12 else []
                frags.append({"kind": kind, "toks": [*cfgflag, kind, nm, *body, ";"], "deps": sorted(deps), "names": [nm]})
                types.append((nm, idx))
    # perturbed history
    order = _topo(rng, frags)
    cuts = sorted(set(rng.sample(range(1, len(order)), rng.randint(0, min(3, len(order) - 1))))) if len(order) > 1 else []
    noise = {}
    kinds_used = set()
    enum_nl = False
    for fi, f in enumerate(frags):
        if f.get("line"):
            continue
        for ti in range(len(f["toks"]) - 1):
            if rng.random() < 0.3:
                a, b = f["toks"][ti], f["toks"][ti + 1]
                nz = rng.choice(NOISE)
                inside_member = isinstance(a, tuple) and isinstance(b, tuple) and a[0] in ("M", "=", "V") and b[0] in ("=", "V")
                if inside_member and any(c_ in nz for c_ in LINE_BREAKS):
                    if rng.random() < 0.08:
                        enum_nl = True
                    else:
                        nz = rng.choice([" ", "\t", " /* c */ ", "  "])
                noise[f"{fi}:{ti}"] = nz
                kinds_used.add(NOISE.index(nz) if nz in NOISE else -1)
    alias_ops = []
    for _ in range(rng.randint(0, 4)):
        r = rng.random()
        pos = rng.randint(0, len(cuts) + 1)
        tds = [f for f in frags if f["kind"] == "typedef"]
        if r < 0.3 and tds:
            f = rng.choice(tds)
            target = f["alias_of"]
            later = [g for g in tds if g["alias_of"] == f["names"][0]]
            if later and rng.random() < 0.5:
                # the other direction: an alias OF this name is the same type too (typedef A B; ... typedef B A;)
                g = rng.choice(later)
                target = g["names"][0]
                alias_ops.append({"op": "redeclare_same", "pos": len(cuts) + 1, "name": f["names"][0], "target": target, "frag": frags.index(g),
                                  "via": rng.choice(["load", "add_type_str", "add_type_obj"])})
                continue
            if f.get("base") in SYN and rng.random() < 0.6:
                target = rng.choice(SYN[f["base"]])  # another spelling of the very same type
            alias_ops.append({"op": "redeclare_same", "pos": pos, "name": f["names"][0], "target": target, "frag": frags.index(f),
                              "via": rng.choice(["load", "add_type_str", "add_type_obj"])})
        elif r < 0.55 and tds:
            f = rng.choice(tds)
            via = rng.choice(["load", "add_type_str", "add_type_obj"])
            if rng.random() < 0.4:
                # the conflicting re-declaration in another syntactic form, of ANY declared type name (alias, structure, enum)
                f = rng.choice([g for g in frags if g["kind"] != "define"])
                via = rng.choice(sorted(REDECL_FORMS))
            alias_ops.append({"op": "redeclare_other", "pos": pos, "name": rng.choice(f["names"]), "target": rng.choice(["double", "int128", "float16"]),
                              "frag": frags.index(f), "via": via})
        elif r < 0.75:
            alias_ops.append({"op": "cycle", "pos": pos, "len": rng.randint(1, 4), "use": rng.choice(["resolve", "attr", "field", "sizeof", *FIELD_USES])})
        elif r < 0.9:
            alias_ops.append({"op": "dangling", "pos": pos, "hops": rng.randint(0, 3), "use": rng.choice(["resolve", "attr", "field", *FIELD_USES]),
                              "lookalike": rng.randrange(1000) if rng.random() < 0.5 else None})
        elif r < 0.95:
            alias_ops.append({"op": "long_chain", "pos": pos, "len": rng.randint(2, 12)})
        else:
            alias_ops.append({"op": "typedef_chain", "pos": pos, "len": rng.randint(3, 14), "base": rng.choice(["uint16", "char", "DWORD", "int48"])})
    for _ in range(rng.randint(0, 2)):
        # an unrelated definition loaded with OTHER parser options between the groups: options belong to one load() call
        alias_ops.append({"op": "foreign_load", "pos": rng.randint(0, len(cuts) + 1), "align": rng.random() < 0.5, "compiled": rng.random() < 0.5,
                          "n": rng.randint(1, 3)})
    return {"frags": frags, "order": order, "cuts": cuts, "noise": noise, "alias_ops": alias_ops, "enum_member_newline": enum_nl,
            "omit_default_kwargs": [rng.random() < 0.5 for _ in range(len(cuts) + 1)],
            "via_file": [rng.random() < 0.15 for _ in range(len(cuts) + 1)],
            "data_seed": rng.getrandbits(32), "cfg": {"endian": rng.choice("<>"), "compiled": rng.random() < 0.5, "align": rng.random() < 0.3}}


def _topo(rng, frags):
    done, order = set(), []
    remaining = list(range(len(frags)))
    while remaining:
        ready = [i for i in remaining if all(d in done for d in frags[i]["deps"])]
        i = rng.choice(ready)
        order.append(i)
        done.add(i)
        remaining.remove(i)
    return order


def _tok(t):
    return t[1] if isinstance(t, (tuple, list)) else t


def render_frag(f, fi, noise):
    if f.get("line"):
        return f["toks"][0] + "\n"
    out = []
    toks = f["toks"]
    for ti, t in enumerate(toks):
        out.append(_tok(t))
        if ti + 1 < len(toks):
            nxt = toks[ti + 1]
            plain = "" if isinstance(nxt, (tuple, list)) and nxt[0] == "G" else " "
            out.append(noise.get(f"{fi}:{ti}", plain) if noise is not None else plain)
    return "".join(out) + "\n"


class _Timeout(Exception):
    pass


def _alarm(signum, frame):
    raise _Timeout()


def world_signature(cs, frags, rng_seed):
    from dissect.cstruct.types import Enum, Flag, Structure

    sig = {}
    for f in frags:
        for nm in f["names"]:
            if f["kind"] == "define":
                sig[nm] = ["const", repr(cs.consts.get(nm))]
                continue
            try:
                t = cs.resolve(nm)
            except Exception as e:  # noqa: BLE001
                sig[nm] = ["unresolved", type(e).__name__]
                continue
            if isinstance(t, type) and issubclass(t, (Enum, Flag)):
                sig[nm] = ["enum", t.__name__, t.type.__name__, [[k, int(v.value)] for k, v in t.__members__.items()]]
            elif isinstance(t, type) and issubclass(t, Structure):
                beh = []
                drng = random.Random(rng_seed)
                for _ in range(2):
                    data = gen.gen_bytes(drng, 96)
                    s = io.BytesIO(data)
                    try:
                        v = t(s)
                        beh.append(["val", observe(v, anon=True), s.tell()])
                    except Exception as e:  # noqa: BLE001
                        beh.append(["exc", type(e).__name__])
                sig[nm] = ["struct", layout_signature(t, anon=True), beh]
            else:
                sig[nm] = ["type", getattr(t, "__name__", str(t)), getattr(t, "size", None), getattr(t, "alignment", None)]
        if f["kind"] == "tstruct":
            objs = []
            for nm in f["names"]:
                try:
                    objs.append(cs.resolve(nm))
                except Exception:  # noqa: BLE001
                    objs.append(None)
            sig["same:" + f["names"][0]] = all(o is objs[0] and o is not None for o in objs)
        if f["kind"] == "typedef":
            try:
                sig["alias:" + f["names"][0]] = cs.resolve(f["names"][0]) is cs.resolve(f["alias_of"])
            except Exception as e:  # noqa: BLE001
                sig["alias:" + f["names"][0]] = type(e).__name__
    return sig


def run_history(case, perturbed, stats):
    """Build a world. perturbed=False: canonical order, one load, canonical spacing, no alias ops."""
    from dissect.cstruct import cstruct
    from dissect.cstruct.exceptions import ResolveError

    cfg = case["cfg"]
    cs = cstruct(endian=cfg["endian"])
    frags = case["frags"]
    kw = {"compiled": cfg["compiled"], "align": cfg["align"]}
    if not perturbed:
        cs.load("".join(render_frag(f, i, None) for i, f in enumerate(frags)), **kw)
        return cs
    order = case["order"]
    groups, prev = [], 0
    for c in [*case["cuts"], len(order)]:
        groups.append(order[prev:c])
        prev = c
    loaded = set()

    def alias_ops_at(pos):
        for opi, op in enumerate(case["alias_ops"]):
            if op["pos"] != pos:
                continue
            k = op["op"]
            stats.count("evaluations")
            before = dict(cs.typedefs)
            if k in ("redeclare_same", "redeclare_other"):
                if op["frag"] not in loaded:
                    continue
                text = f"typedef {op['target']} {op['name']};"
                try:
                    via = op.get("via", "load")
                    if via in REDECL_FORMS:
                        text = REDECL_FORMS[via].format(name=op["name"], fresh=f"fr{pos}_{opi}")
                        cs.load(text)
                    elif via == "load":
                        cs.load(text)
                    elif via == "add_type_str":
                        cs.add_type(op["name"], op["target"])
                    else:
                        cs.add_type(op["name"], cs.resolve(op["target"]))
                    text += f" (via {via})"
                    ok = True
                except ValueError:
                    ok = False
                    stats.count("fault.redeclaration_rejected")
                except Exception as e:  # noqa: BLE001
                    raise Violation("alias", "redeclaration_wrong_error", f"{text!r} raised {type(e).__name__}: {e}")
                if k == "redeclare_same" and not ok:
                    raise Violation("alias", "same_target_rejected", f"re-declaring {text!r} with its existing target was rejected")
                if k == "redeclare_other":
                    if ok:
                        raise Violation("alias", "other_target_accepted", f"{text!r} silently re-bound an existing alias to another type")
                    # multi-name forms may have registered their OTHER, new names before the conflict was detected (the
                    # statement does not forbid that): every entry that existed before must be untouched
                    for fr in (f"fr{pos}_{opi}", f"fr{pos}_{opi}b"):
                        if fr not in before:
                            cs.typedefs.pop(fr, None)
                    if dict(cs.typedefs) != before:
                        raise Violation("alias", "table_changed_by_rejected_redeclaration", text)
            elif k == "typedef_chain":
                # a chain of plain typedefs written in the definition language: every link is the very same type
                names = [f"tc{pos}_{opi}_{i}" for i in range(op["len"])]
                text = "".join(f"typedef {names[i - 1] if i else op['base']} {names[i]};\n" for i in range(len(names)))
                try:
                    cs.load(text)
                    got = [cs.resolve(nm_) for nm_ in names]
                except Exception as e:  # noqa: BLE001
                    raise Violation("alias", "typedef_chain_does_not_resolve", f"{text!r}: {type(e).__name__}: {e}")
                if any(g is not cs.resolve(op["base"]) for g in got):
                    raise Violation("alias", "typedef_chain_not_same_type", f"{text!r}: links resolve to {[getattr(g, '__name__', g) for g in got]}")
                for nm_ in names:
                    cs.typedefs.pop(nm_, None)
            elif k == "foreign_load":
                body = " ".join(f"uint{8 * (1 << j)} q{j};" for j in range(op["n"]))
                nmz = f"Zz{pos}_{opi}"
                cs.load(f"struct {nmz} {{ uint8 lead; {body} }};", compiled=op["compiled"], align=op["align"])
                stats.count("probe.foreign_load_with_other_options")
            elif k in ("cycle", "dangling", "long_chain"):
                base = f"zz{pos}_{opi}_"
                if k == "cycle":
                    names = [base + str(i) for i in range(op["len"])]
                    for i, nme in enumerate(names):
                        cs.typedefs[nme] = names[(i + 1) % len(names)]
                    head, expect_err = names[0], True
                elif k == "dangling":
                    names = [base + str(i) for i in range(op["hops"] + 1)]
                    # where the chain ends: a name nobody declared - sometimes one that differs from a DECLARED name only in
                    # letter case or by a trailing underscore (an unknown name must never bind to a look-alike)
                    nowhere = base + "nowhere"
                    declared = sorted(str(n_) for n_ in cs.typedefs if isinstance(n_, str) and n_.isidentifier())
                    if op.get("lookalike") is not None and declared:
                        src = declared[op["lookalike"] % len(declared)]
                        for cand in (src.lower(), src.upper(), src.swapcase(), src.capitalize(), src + "_", "_" + src):
                            if cand not in cs.typedefs and cand not in cs.consts and cand.isidentifier():
                                nowhere = cand
                                stats.count("probe.dangling_name_is_lookalike_of_declared_name")
                                break
                    for i, nme in enumerate(names):
                        cs.typedefs[nme] = names[i + 1] if i + 1 < len(names) else nowhere
                    if op.get("lookalike") is not None and op["hops"] == 0 and nowhere != base + "nowhere":
                        # refer to the look-alike directly
                        cs.typedefs.pop(names[0], None)
                        names = [nowhere]
                    head, expect_err = names[0], True
                else:
                    names = [base + str(i) for i in range(op["len"])]
                    for i, nme in enumerate(names):
                        cs.add_type(nme, names[i + 1] if i + 1 < len(names) else "uint16")
                    head, expect_err = names[0], None  # may resolve (to uint16) or report the hop limit, never anything else
                use = op.get("use", "resolve")
                if use == "attr" and head not in cs.typedefs:
                    use = "resolve"  # cs.<name> for a name that is in no table at all is an AttributeError by design
                signal.signal(signal.SIGALRM, _alarm)
                signal.setitimer(signal.ITIMER_REAL, 5.0)
                try:
                    if use == "resolve" or k == "long_chain":
                        got = cs.resolve(head)
                    elif use == "attr":
                        got = getattr(cs, head)
                    elif use == "sizeof":
                        from dissect.cstruct.expression import Expression

                        got = Expression(cs, f"sizeof({head})").evaluate()
                    elif use in FIELD_USES:
                        cs.load(FIELD_USES[use].format(q=f"Q{base}", head=head), **kw)
                        got = "loaded"
                    else:
                        cs.load(f"struct Q{base} {{ {head} a; }};", **kw)
                        got = "loaded"
                    res = ("val", got)
                except _Timeout:
                    raise Violation("alias", "resolve_loops", f"{k} alias chain {names}: no answer within 5 s")
                except ResolveError:
                    res = ("ResolveError",)
                    stats.count("fault.resolve_error")
                except Exception as e:  # noqa: BLE001
                    res = ("exc", type(e).__name__)
                finally:
                    signal.setitimer(signal.ITIMER_REAL, 0)
                if expect_err and res[0] == "val":
                    raise Violation("alias", "unknown_or_cyclic_alias_bound", f"{k} chain {names} via {use}: got {res[1]!r} instead of a resolve error")
                if expect_err and res[0] == "exc":
                    raise Violation("alias", "not_a_resolve_error", f"{k} chain {names} via {use}: raised {res[1]} instead of ResolveError")
                if expect_err is None and not (res[0] == "ResolveError" or (res[0] == "val" and res[1] is cs.uint16)):
                    raise Violation("alias", "long_chain_bound_elsewhere", f"chain of {len(names)} aliases to uint16 gave {res}")
                for nme in names:
                    cs.typedefs.pop(nme, None)
                cs.typedefs.pop(f"Q{base}", None)
                cs.typedefs.pop(f"Q{base}p", None)

    for gi, g in enumerate(groups):
        alias_ops_at(gi)
        text = "".join(render_frag(frags[i], i, case["noise"]) for i in g)
        kwg = dict(kw)
        omit = case.get("omit_default_kwargs") or []
        if gi < len(omit) and omit[gi]:
            # the documented defaults are compiled=True, align=False: leaving a default out must mean the same
            if kwg["compiled"] is True:
                del kwg["compiled"]
            if kwg["align"] is False:
                del kwg["align"]
            stats.count("probe.load_with_default_kwargs_omitted")
        via_file = case.get("via_file") or []
        if gi < len(via_file) and via_file[gi]:
            # the file entry point: the group is written to a scratch file exactly as rendered (no newline translation on
            # writing) and loaded with loadfile(); line endings inside the noise reach the library through its own file read
            import os
            import tempfile

            fd, path = tempfile.mkstemp(prefix="verif_c13_", suffix=".h")
            try:
                with os.fdopen(fd, "w", newline="", encoding="utf-8") as fh:
                    fh.write(text)
                cs.loadfile(path, **kwg)
            finally:
                os.unlink(path)
            stats.count("probe.group_loaded_through_loadfile")
        else:
            cs.load(text, **kwg)
        loaded.update(g)
        stats.count("steps")
    alias_ops_at(len(groups))
    return cs


def run_case(case, stats):
    try:
        canon = run_history(case, False, stats)
    except Exception as ex:  # noqa: BLE001
        raise Discard("canonical_load_fails_" + type(ex).__name__)
    ref = world_signature(canon, case["frags"], case["data_seed"])
    for k, v in ref.items():
        if isinstance(v, list) and v and v[0] == "unresolved":
            raise Violation("alias", "declared_name_does_not_resolve", f"after loading the definitions, name {k} does not resolve: {v}")
        if k.startswith("same:") and v is not True:
            raise Violation("alias", "names_of_one_typedef_struct_differ", f"the names declared after one 'typedef struct' ({k[5:]}, ...) are not the very same type")
        if k.startswith("alias:") and v is not True:
            raise Violation("alias", "typedef_not_same_type_as_target", f"typedef {k[6:]} does not resolve to the very same type as its target: {v}")
    for a, b in (("DWORD", "uint32"), ("unsigned int", "uint32"), ("BYTE", "uint8"), ("long long", "int64"), ("wchar_t", "wchar"), ("QWORD", "uint64")):
        if canon.resolve(a) is not canon.resolve(b):
            raise Violation("alias", "builtin_synonym_not_same_type", f"{a} and {b} resolve to different type objects")

    def compare(c):
        try:
            w = run_history(c, True, stats)
        except (Violation, Discard):
            raise
        except Exception as ex:  # noqa: BLE001
            return ("load", f"perturbed history raised {type(ex).__name__}: {ex}")
        got = world_signature(w, c["frags"], c["data_seed"])
        if got != ref:
            bad = [k for k in ref if ref[k] != got.get(k)]
            k = bad[0]
            return ("sig", f"name {k}: canonical {json.dumps(ref[k])[:700]} | perturbed {json.dumps(got.get(k))[:700]}")
        return None

    stats.count("evaluations")
    res = compare(case)
    kinds = sorted(f["kind"] for f in case["frags"])
    nontrivial = case["order"] != sorted(case["order"]) or bool(case["cuts"])
    if nontrivial:
        stats.key(tuple(kinds), tuple(sorted({NOISE.index(v) if v in NOISE else -1 for v in case["noise"].values()})),
                  tuple(sorted(o["op"] for o in case["alias_ops"])), len(case["cuts"]))
    for v in set(case["noise"].values()):
        stats.count("probe.noise_" + json.dumps(v)[1:-1][:12])
    if res is None:
        return
    detail = res[1] + f" | order {case['order']} cuts {case['cuts']}"
    if case.get("enum_member_newline"):
        # known finding: a newline inside one enum member. Re-run with those newlines replaced by a blank.
        c2 = copy.deepcopy(case)
        for key, nz in case["noise"].items():
            fi, ti = map(int, key.split(":"))
            toks = case["frags"][fi]["toks"]
            if isinstance(toks[ti], (tuple, list)) and isinstance(toks[ti + 1], (tuple, list)) and toks[ti][0] in ("M", "=", "V") and toks[ti + 1][0] in ("=", "V") and any(c_ in nz for c_ in LINE_BREAKS):
                c2["noise"][key] = " "
        if compare(c2) is None:
            raise Violation("noise", "newline_inside_enum_member", detail)
    raise Violation("noise_order_grouping", "world_differs_" + res[0], detail)


def known_match(case, vinfo, match):
    return bool(match) and vinfo.get("oracle") == match.get("oracle") and vinfo.get("kind") == match.get("kind")


def shrink_candidates(case, vinfo):
    if case["cuts"]:
        c = copy.deepcopy(case)
        c["cuts"] = []
        yield c
    if case["order"] != sorted(case["order"]):
        c = copy.deepcopy(case)
        c["order"] = sorted(case["order"])
        yield c
    for i in range(len(case["alias_ops"])):
        c = copy.deepcopy(case)
        del c["alias_ops"][i]
        yield c
    for k in list(case["noise"]):
        c = copy.deepcopy(case)
        del c["noise"][k]
        yield c
    # drop a fragment nobody depends on
    n = len(case["frags"])
    for i in range(n - 1, -1, -1):
        if any(i in f["deps"] for f in case["frags"]) or n <= 1:
            continue
        c = copy.deepcopy(case)
        del c["frags"][i]

        def re(j):
            return j - 1 if j > i else j
        for f in c["frags"]:
            f["deps"] = [re(d) for d in f["deps"]]
        c["order"] = [re(j) for j in case["order"] if j != i]
        c["cuts"] = [x for x in sorted({min(x, len(c["order"]) - 1) for x in case["cuts"]}) if 0 < x < len(c["order"])]
        c["noise"] = {f"{re(int(k.split(':')[0]))}:{k.split(':')[1]}": v for k, v in case["noise"].items() if int(k.split(":")[0]) != i}
        c["alias_ops"] = [dict(o, frag=re(o["frag"])) if "frag" in o else o for o in case["alias_ops"] if o.get("frag") != i]
        yield c
