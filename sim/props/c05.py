"""C05 - scalar codecs implement the standard encodings under the CURRENT endianness (engine E-CFG)."""
from __future__ import annotations

import array
import copy
import io
import random
import struct

from sim import gen
from sim.core import Discard, Violation

ID = "C05"
LEVEL = "exploration"
TIERS = {"quick": {"runs": 40000, "budget_s": 75, "chunk": 200, "min_runs": 1000},
         "thorough": {"runs": 4000000, "budget_s": 1200, "chunk": 500, "min_runs": 20000}}
RULE = ("case = seeded (1-2 cstruct objects with random initial endianness in {<,>,!}; flat packed structures of 3-9 scalar "
        "fields loaded BEFORE the history, each as a compiled and an interpreted twin; history of 10-40 ops: set_endian, "
        "parse/dump of scalars, arrays created before and after switches, whole structures (compiled and interpreted), "
        "LEB128, truncated parses as faults). Values come from a reference encoder (two's complement / IEEE-754 / raw / "
        "UTF-16 / minimal LEB128, bit-field packing; arrays of 255..65537 elements in 4% of the array ops; the same numbers dumped "
        "from tuples, plain lists and array.arrays of every fitting type code, integers into float array types) under the MODEL's current endianness; parse(bytes) must give the value "
        "and dumps(value) the bytes. evaluations = codec checks. distinct_nontrivial = distinct (type, endian before last "
        "switch, current endian, compiled?, op kind) tuples executed after at least one switch.")
SPLIT = {"decided_by_search": "endianness switches at arbitrary points of a history take effect for all later reads and writes of all "
                              "types, including already compiled structures and array types created earlier",
         "rides_on_oracle": "that each codec is the standard encoding (reference codecs with boundary-biased values; sampled)"}
ASSUMPTIONS = [
    "Native codes @ and = are outside the domain (as the statement says); NaN payloads and non-minimal LEB128 are not generated.",
    "Alias -> width/signedness table is the conventional meaning of the C / Windows / GNU names, written down in the harness.",
    "Bit-field units are packed as the statement of C06 prescribes (first field in the least significant bits for little endian, "
    "most significant for big endian); only one 16- or 32-bit unit per structure is generated.",
]
REAL = ["dissect.cstruct scalar types, arrays, structure readers (compiled and interpreted), BitBuffer, struct cache"]
STUBS = ["none (reference codecs are the oracle; truncated inputs are the only faults)"]

INTS = {n: (gen.SIZES[n], n.startswith("int")) for n in gen.INT_PACKED + gen.INT_WIDE}
ALIAS = {}
for _t, _al in gen.ALIASES.items():
    if _t in INTS:
        for _a in _al:
            ALIAS[_a] = _t
ALIAS.pop("unsigned char", None)
FLT = {"float16": "e", "float": "f", "double": "d"}
WCH = [0x41, 0x7A, 0xE9, 0x4E2D, 0x20AC, 0xD7FF, 0xE000, 0xFFFD, 0x0100, 0x00FF, 0x1, 0xFEFF, 0xFFFE, 0xFFFF, 0x0, 0x4E00, 0x0041, 0x4100]
FLOATS = {"float16": [0.0, -0.0, 0.0, 1.0, -2.0, 0.5, 65504.0, -0.25, float("inf")], "float": [0.0, -0.0, 0.0, 1.0, -1.5, 3.0e10, 1.1754943508222875e-38, 16777216.0, float("-inf")],
          "double": [0.0, -0.0, 0.0, 1.0, -1.5, 1e300, 2.2250738585072014e-308, 9007199254740993.0, float("inf")]}


def _dumps_or_error(at, value):
    try:
        return at.dumps(value)
    except Exception as ex:  # noqa: BLE001
        return "raised " + type(ex).__name__


def order_of(e):
    return "little" if e == "<" else "big"


def gen_value(rng, t):
    """-> JSON-able value for scalar kind t."""
    if t in ALIAS:
        t = ALIAS[t]
    if t in INTS:
        size, signed = INTS[t]
        lo, hi = (-(1 << (8 * size - 1)), (1 << (8 * size - 1)) - 1) if signed else (0, (1 << (8 * size)) - 1)
        return rng.choice([lo, hi, 0, 1, -1 if signed else hi - 1, rng.randint(lo, hi), rng.randint(lo, hi), 0x0102 if hi >= 0x0102 else 1,
                           (hi >> 1) + 1 if not signed else lo + 1])
    if t in FLT:
        return rng.choice(FLOATS[t])
    if t == "char":
        return rng.choice([0, 0x41, 0x80, 0xFF])
    if t == "wchar":
        return rng.choice(WCH)
    if t == "uleb128":
        return rng.choice([0, 1, 127, 128, 255, 300, 16383, 16384, 2 ** 32, 2 ** 64 + 5, rng.randrange(1 << 40)])
    if t == "ileb128":
        return rng.choice([0, 1, -1, 63, 64, -64, -65, 127, -128, 8191, -8192, 2 ** 40, -(2 ** 40), rng.randrange(-(1 << 30), 1 << 30)])
    raise ValueError(t)


def leb(v, signed):
    out = bytearray()
    while True:
        b = v & 0x7F
        v >>= 7
        if (not signed and v == 0) or (signed and ((v == 0 and not b & 0x40) or (v == -1 and b & 0x40))):
            out.append(b)
            return bytes(out)
        out.append(b | 0x80)


def encode(t, v, e):
    """Reference encoder."""
    if t in ALIAS:
        t = ALIAS[t]
    if t in INTS:
        size, signed = INTS[t]
        return v.to_bytes(size, order_of(e), signed=signed)
    if t in FLT:
        return struct.pack(("<" if e == "<" else ">") + FLT[t], v)
    if t == "char":
        return bytes([v])
    if t == "wchar":
        return v.to_bytes(2, order_of(e))
    if t == "uleb128":
        return leb(v, False)
    if t == "ileb128":
        return leb(v, True)
    raise ValueError(t)


def plain(x):
    """Library value -> comparable python value."""
    if isinstance(x, float):
        return ("f", struct.pack(">d", x))
    if isinstance(x, bytes):
        return ("b", bytes(x))
    if isinstance(x, str):
        return ("s", [ord(c) for c in x])
    if isinstance(x, int):
        return ("i", int.__index__(x))
    if isinstance(x, list):
        return ("L", [plain(e) for e in x])
    return ("?", repr(type(x)))


def want(t, v):
    if t in ALIAS:
        t = ALIAS[t]
    if t in FLT:
        return ("f", struct.pack(">d", struct.unpack(">" + FLT[t], struct.pack(">" + FLT[t], v))[0]))
    if t == "char":
        return ("b", bytes([v]))
    if t == "wchar":
        return ("s", [v])
    return ("i", v)


def want_array(t, vs):
    base = ALIAS.get(t, t)
    wt = [want(t, v) for v in vs]
    if base == "char":
        return ("b", b"".join(x[1] for x in wt))
    if base == "wchar":
        # UTF-16: a high surrogate followed by a low surrogate is ONE character outside the BMP
        units, out, i = [x[1][0] for x in wt], [], 0
        while i < len(units):
            if 0xD800 <= units[i] < 0xDC00 and i + 1 < len(units) and 0xDC00 <= units[i + 1] < 0xE000:
                out.append(0x10000 + ((units[i] - 0xD800) << 10) + (units[i + 1] - 0xDC00))
                i += 2
            else:
                out.append(units[i])
                i += 1
        return ("s", out)
    return ("L", wt)


BIG_LENS = [255, 256, 257, 1023, 1024, 1025, 4095, 4096, 4097, 5000, 8192, 16383, 16384, 16385, 32767, 32768, 32769, 65535, 65536, 65537]
POOL = list(INTS) + list(FLT) + ["char", "wchar"] + sorted(ALIAS)


def gen_case(rng: random.Random, tier: str):
    ncs = rng.choice([1, 1, 2])
    css = []
    for _ in range(ncs):
        fields = []
        for i in range(rng.randint(3, 9)):
            r = rng.random()
            if r < 0.6:
                fields.append({"n": f"f{i}", "t": rng.choice(POOL), "k": "s"})
            elif r < 0.8:
                fields.append({"n": f"f{i}", "t": rng.choice(POOL), "k": "a", "len": rng.randint(0, 3)})
            elif r < 0.9:
                fields.append({"n": f"f{i}", "t": rng.choice(["uint8", "uint16", "int32", "uint64", "int24"]), "k": "e"})
            else:
                if not any(f["k"] == "b" for f in fields):
                    base = rng.choice(["uint16", "uint32", "uint8"])
                    total = gen.SIZES[base] * 8
                    w1 = rng.randint(1, total - 2)
                    w2 = rng.randint(1, total - w1)
                    fields.append({"n": f"f{i}", "t": base, "k": "b", "w": [w1, w2]})
        css.append({"endian": rng.choice("<>!"), "fields": fields})
    ops = []
    for _ in range(rng.randint(10, 40)):
        r = rng.random()
        c = rng.randrange(ncs)
        if r < 0.22:
            ops.append({"op": "set_endian", "cs": c, "e": rng.choice("<>!")})
        elif r < 0.5:
            t = rng.choice(POOL + ["uleb128", "ileb128"] * 3)
            ops.append({"op": "scalar", "cs": c, "t": t, "v": gen_value(rng, t), "trunc": rng.random() < 0.1})
        elif r < 0.6:
            t = rng.choice(POOL)
            n = rng.randint(1, 4)
            ops.append({"op": "array", "cs": c, "t": t, "vs": [gen_value(rng, t) for _ in range(n)], "cached": rng.random() < 0.5,
                        "cont": rng.randrange(16) if rng.random() < 0.5 else None})
            if ALIAS.get(t, t) == "wchar" and rng.random() < 0.4:
                # a character outside the BMP: two code units (surrogate pair) that decode to ONE character of the str
                k_ = rng.randrange(len(ops[-1]["vs"]) + 1)
                ops[-1]["vs"][k_:k_] = rng.choice([[0xD83D, 0xDE00], [0xD800, 0xDC00], [0xDBFF, 0xDFFF], [0xD834, 0xDD1E]])
            if rng.random() < 0.04:
                # boundary sizes: a long array (the 1-4 generated values repeated), crossing block sizes and bulk-path thresholds
                size = gen.SIZES[ALIAS.get(t, t)]
                ops[-1]["rep"] = rng.choice([x for x in BIG_LENS if x * size <= 140000])
        elif r < 0.66:
            # null-terminated form x[]: elements up to and including the first zero element; dumping re-appends it
            t = rng.choice(["wchar", "wchar", "char", "uint8", "uint16", "int32", "uint64", "int24", "WORD", "uleb128"])
            vs = [v for v in (gen_value(rng, t) for _ in range(rng.randint(0, 6))) if v != 0]
            ops.append({"op": "zarray", "cs": c, "t": t, "vs": vs})
        else:
            f = css[c]["fields"]
            vals = []
            for fd in f:
                if fd["k"] in ("s", "e"):
                    vals.append(gen_value(rng, fd["t"]))
                elif fd["k"] == "a":
                    vals.append([gen_value(rng, fd["t"]) for _ in range(fd["len"])])
                else:
                    vals.append([rng.randrange(1 << w) for w in fd["w"]])
            ops.append({"op": "struct", "cs": c, "compiled": rng.random() < 0.5, "vals": vals, "trunc": rng.random() < 0.08})
    return {"css": css, "ops": ops}


def struct_text(name, fields):
    out = []
    enums = []
    for f in fields:
        if f["k"] == "s":
            out.append(f"  {f['t']} {f['n']};")
        elif f["k"] == "a":
            out.append(f"  {f['t']} {f['n']}[{f['len']}];")
        elif f["k"] == "e":
            enums.append(f"enum E_{f['n']} : {f['t']} {{ A_{f['n']} = 1, B_{f['n']} = 2 }};")
            out.append(f"  E_{f['n']} {f['n']};")
        else:
            out.append(f"  {f['t']} {f['n']}x : {f['w'][0]};")
            out.append(f"  {f['t']} {f['n']}y : {f['w'][1]};")
    return "\n".join(enums), f"struct {name} {{\n" + "\n".join(out) + "\n};\n"


def enc_struct(fields, vals, e):
    out = b""
    for f, v in zip(fields, vals):
        if f["k"] in ("s", "e"):
            out += encode(f["t"], v, e)
        elif f["k"] == "a":
            out += b"".join(encode(f["t"], x, e) for x in v)
        else:
            total = gen.SIZES[f["t"]] * 8
            if e == "<":
                unit = v[0] | (v[1] << f["w"][0])
            else:
                unit = (v[0] << (total - f["w"][0])) | (v[1] << (total - f["w"][0] - f["w"][1]))
            out += unit.to_bytes(total // 8, order_of(e))
    return out


def run_case(case, stats):
    from dissect.cstruct import cstruct

    worlds = []
    for spec in case["css"]:
        cs = cstruct(endian=spec["endian"])
        enums, body_c = struct_text("Fc", spec["fields"])
        _, body_i = struct_text("Fi", spec["fields"])
        try:
            cs.load(enums + "\n" + body_c, compiled=True)
            cs.load(body_i, compiled=False)
        except Exception as ex:  # noqa: BLE001
            raise Discard("load_fail_" + type(ex).__name__)
        arrays = {}
        worlds.append({"cs": cs, "endian": spec["endian"], "prev": None, "fields": spec["fields"], "arrays": arrays, "switched": False})

    def fail(kind, detail):
        raise Violation("codec", kind, detail)

    for op in case["ops"]:
        try:
            _step(op, worlds, stats, fail)
        except (Violation, Discard):
            raise
        except Exception as ex:  # noqa: BLE001
            w = worlds[op["cs"]]
            raise Violation("codec", "raised_" + type(ex).__name__,
                            f"op {op} under endian {w['endian']} (before: {w['prev']}) raised {type(ex).__name__}: {ex}")


def _step(op, worlds, stats, fail):
    if True:
        w = worlds[op["cs"]]
        cs = w["cs"]
        e = w["endian"]
        k = op["op"]
        stats.count("steps")
        if k == "set_endian":
            if op["e"] != w["endian"]:
                w["prev"] = w["endian"]
                w["switched"] = True
                stats.count("fault.endian_switch")
            cs.endian = op["e"]
            w["endian"] = op["e"]
            return
        if k == "scalar":
            t = op["t"]
            typ = cs.resolve(t)
            b = encode(t, op["v"], e)
            stats.count("evaluations")
            if w["switched"]:
                stats.key(t, w["prev"], e, None, "scalar")
            if op["trunc"]:
                try:
                    got = typ(b[:-1])
                    fail("truncated_scalar_parsed", f"{t} from {b[:-1].hex()} (one byte short) returned {got!r}")
                except EOFError:
                    stats.count("fault.truncated_parse")
                except Violation:
                    raise
                except Exception as ex:  # noqa: BLE001
                    fail("truncated_scalar_wrong_error", f"{t} from {b[:-1].hex()} raised {type(ex).__name__}")
                return
            s = io.BytesIO(b + b"\xAA")
            got = typ(s)
            if plain(got) != want(t, op["v"]) or s.tell() != len(b):
                fail("decode", f"{t} endian {e} (before: {w['prev']}) bytes {b.hex()}: got {plain(got)} consumed {s.tell()}, standard decoding is {op['v']}")
            d = typ.dumps(got)
            if d != b:
                fail("encode", f"{t} endian {e} (before: {w['prev']}) value {op['v']}: dumps gave {d.hex()}, standard encoding is {b.hex()}")
            out = io.BytesIO()
            typ.write(out, got)  # the stream entry point must write the same bytes as dumps()
            if out.getvalue() != b:
                fail("encode", f"{t} endian {e}: write(stream, value) wrote {out.getvalue().hex()}, standard encoding is {b.hex()}")
            # encoding from a plain python value as well
            pv = op["v"] if want(t, op["v"])[0] in ("i", "f") else (bytes([op["v"]]) if t in ("char", "CHAR") else chr(op["v"]))
            d2 = typ.dumps(pv)
            if d2 != b:
                fail("encode", f"{t} endian {e} dumps({pv!r}) gave {d2.hex()}, standard encoding is {b.hex()}")
        elif k == "array":
            t = op["t"]
            if op.get("rep"):
                op = dict(op, vs=(op["vs"] * (op["rep"] // len(op["vs"]) + 1))[: op["rep"]])
                if ALIAS.get(t, t) == "wchar" and 0xD800 <= op["vs"][-1] < 0xDC00:
                    op["vs"][-1] = 0x41  # the repetition was cut inside a surrogate pair: not valid UTF-16
                stats.count("probe.long_array_255_to_65537_elements")
            n = len(op["vs"])
            key = (t, n)
            if op["cached"] and key in w["arrays"]:
                at = w["arrays"][key]
                stats.count("probe.array_type_created_before_switch")
            else:
                at = cs.resolve(t)[n]
                w["arrays"][key] = at
            b = b"".join(encode(t, v, e) for v in op["vs"])
            got = at(io.BytesIO(b))
            stats.count("evaluations")
            if w["switched"]:
                stats.key(t, w["prev"], e, None, "array")
            exp = want_array(t, op["vs"])
            if plain(got) != exp:
                fail("decode_array", f"{t}[{n}] endian {e} (before: {w['prev']}) bytes {b.hex()}: got {plain(got)} expected {exp}")
            d = at.dumps(got)
            if d != b:
                fail("encode_array", f"{t}[{n}] endian {e} dumps gave {d.hex()} expected {b.hex()}")
            # the same numbers in OTHER containers (tuple, plain list, array.array of a matching or of another item type):
            # the encoding depends on the array type, never on the Python type of the container or of its items
            base = ALIAS.get(t, t)
            if (base in INTS or base in FLT) and n <= 4096 and op.get("cont") is not None:
                vals = [x for x in op["vs"]]
                conts = [("tuple", tuple(got)), ("list of python numbers", [float(x) if base in FLT else int.__index__(x) for x in got])]
                if base in INTS:
                    size, signed = INTS[base]
                    for tc in "bBhHiIlLqQ":
                        a0 = array.array(tc)
                        lo, hi = (-(1 << (8 * a0.itemsize - 1)), (1 << (8 * a0.itemsize - 1)) - 1) if tc.islower() else (0, (1 << (8 * a0.itemsize)) - 1)
                        if all(lo <= v <= hi for v in vals):
                            conts.append((f"array.array({tc!r})", array.array(tc, vals)))
                    exp_b = b
                    for name_, c_ in conts[op["cont"] % len(conts):][:2] + conts[:1]:
                        d2 = _dumps_or_error(at, c_)
                        stats.count("evaluations")
                        stats.count("probe.array_dumped_from_other_container")
                        if d2 != exp_b:
                            fail("encode_array", f"{t}[{n}] endian {e}: dumps of the values as {name_} gave {d2 if isinstance(d2, str) else d2.hex()[:200]}, expected {exp_b.hex()[:200]}")
                else:
                    conts.append(("array.array('d')", array.array("d", [float(x) for x in got])))
                    if base == "float":
                        conts.append(("array.array('f')", array.array("f", [float(x) for x in got])))
                    exp_b = b
                    for name_, c_ in conts[op["cont"] % len(conts):][:2]:
                        d2 = _dumps_or_error(at, c_)
                        stats.count("evaluations")
                        stats.count("probe.array_dumped_from_other_container")
                        if d2 != exp_b and not any(x != x for x in got):
                            fail("encode_array", f"{t}[{n}] endian {e}: dumps of the values as {name_} gave {d2 if isinstance(d2, str) else d2.hex()[:200]}, expected {exp_b.hex()[:200]}")
                    # integers handed to a float array type (in a list and in integer-typed array.arrays): their float value
                    ints = [(-1) ** j * (j + 1 + op["cont"] % 5) for j in range(min(n, 64))]
                    at2 = cs.resolve(t)[len(ints)]
                    exp_i = b"".join(encode(t, float(v), e) for v in ints)
                    for name_, c_ in [("list of ints", ints)] + [(f"array.array({tc!r}) of ints", array.array(tc, ints)) for tc in "bhilq"]:
                        d2 = _dumps_or_error(at2, c_)
                        stats.count("evaluations")
                        if d2 != exp_i:
                            fail("encode_array", f"{t}[{len(ints)}] endian {e}: dumps of the integers {ints[:6]}.. given as {name_} gave "
                                                 f"{d2 if isinstance(d2, str) else d2.hex()[:120]}, IEEE-754 of their values is {exp_i.hex()[:120]}")
        elif k == "zarray":
            t = op["t"]
            at = cs.resolve(t)[None]
            b = b"".join(encode(t, v, e) for v in op["vs"]) + encode(t, 0, e)
            s = io.BytesIO(b + b"\x55\x55")
            got = at(s)
            stats.count("evaluations")
            if w["switched"]:
                stats.key(t, w["prev"], e, None, "zarray")
            exp = want_array(t, op["vs"])
            if plain(got) != exp or s.tell() != len(b):
                fail("decode_null_terminated", f"{t}[] endian {e} (before: {w['prev']}) bytes {b.hex()}: got {plain(got)} consumed {s.tell()}, expected {exp} consumed {len(b)}")
            d = at.dumps(got)
            if d != b:
                fail("encode_null_terminated", f"{t}[] endian {e}: dumps gave {d.hex()} expected {b.hex()}")
        elif k == "struct":
            F = cs.Fc if op["compiled"] else cs.Fi
            if op["compiled"] and not F.__compiled__:
                stats.count("probe.compile_fell_back")
            fields = w["fields"]
            b = enc_struct(fields, op["vals"], e)
            stats.count("evaluations")
            if w["switched"]:
                stats.key("struct", w["prev"], e, op["compiled"], tuple(f["k"] for f in fields))
            if op["trunc"] and len(b) > 1:
                try:
                    F(b[:-1])
                    fail("truncated_struct_parsed", f"structure from {len(b) - 1} of {len(b)} bytes returned a value")
                except EOFError:
                    stats.count("fault.truncated_parse")
                except Violation:
                    raise
                except Exception as ex:  # noqa: BLE001
                    fail("truncated_struct_wrong_error", f"raised {type(ex).__name__}")
                return
            s = io.BytesIO(b)
            obj = F(s)
            if s.tell() != len(b):
                fail("struct_size", f"consumed {s.tell()} of {len(b)}")
            for f, v in zip(fields, op["vals"]):
                if f["k"] == "s":
                    g, x = plain(getattr(obj, f["n"])), want(f["t"], v)
                elif f["k"] == "e":
                    g, x = ("i", int(getattr(obj, f["n"]).value)), ("i", v)
                elif f["k"] == "a":
                    g = plain(getattr(obj, f["n"]))
                    x = want_array(f["t"], v)
                else:
                    g = ("i", [int(getattr(obj, f["n"] + "x")), int(getattr(obj, f["n"] + "y"))])
                    x = ("i", v)
                if g != x:
                    fail("decode_struct_field", f"{'compiled' if op['compiled'] else 'interpreted'} struct, endian {e} (before: {w['prev']}), "
                                                f"field {f}: got {g}, standard decoding {x}; bytes {b.hex()}")
            d = obj.dumps()
            if d != b:
                fail("encode_struct", f"{'compiled' if op['compiled'] else 'interpreted'} struct endian {e} (before {w['prev']}): dumps {d.hex()} expected {b.hex()}")
        stats.log(k, e)


def shrink_candidates(case, vinfo):
    for i in range(len(case["ops"]) - 1, -1, -1):
        c = copy.deepcopy(case)
        del c["ops"][i]
        yield c
    for ci, spec in enumerate(case["css"]):
        for fi in range(len(spec["fields"])):
            if len(spec["fields"]) > 1:
                c = copy.deepcopy(case)
                del c["css"][ci]["fields"][fi]
                for o in c["ops"]:
                    if o["op"] == "struct" and o["cs"] == ci:
                        del o["vals"][fi]
                yield c
