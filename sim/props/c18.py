"""C18 - incrementally built or self-referential structures equal the one-shot definition (engine E-BUILD)."""
from __future__ import annotations

import copy
import io
import random

from sim import gen
from sim.core import Discard, Violation
from sim.observe import layout_signature, observe

ID = "C18"
LEVEL = "exploration"
TIERS = {"quick": {"runs": 20000, "budget_s": 75, "chunk": 50, "min_runs": 300},
         "thorough": {"runs": 1200000, "budget_s": 1200, "chunk": 200, "min_runs": 5000}}
RULE = ("case = seeded (field sequence from the full generator incl. bit-field runs, dynamic fields, nested/anonymous types, unions, "
        "pointers, optionally a pointer to the structure itself; align; compiled requested or not; a split of the fields into "
        "add_field steps - single adds that commit immediately or batches inside start_update() - with extra no-op commits and "
        "USES of the intermediate class between steps: parse, default-construct, dumps, len, ==, array-of, sizeof by name; update "
        "blocks may be left by an exception of the caller). Three routes are compared: "
        "(A) top-level 'struct R {..};' (pre-registered empty, extended, committed by the parser), (B) one-piece "
        "'typedef struct {..} R;', (C) add_field/commit history; for ~30% of the fixed-size cases additionally (D) one-shot "
        "_make_struct([Field(.., offset=)]) against (E) an add_field(.., offset=) history with EXPLICIT offsets (forward gaps, "
        "offset 0 or an earlier field's offset on a later field). evaluations = route comparisons (layout + behaviour on inputs). "
        "distinct_nontrivial = distinct (field-kind sequence digest, split pattern, kinds of intermediate use) with >= 2 commits.")
ASSUMPTIONS = [
    "Instances created from an intermediate class are not required to follow the final layout (the statement speaks of the class's end state).",
    "Anonymous type names (__anonymous_N__) are normalised before comparing: the counter depends on how many types a route creates.",
    "Route B cannot express a pointer to the structure itself; self-referential cases compare A with C only.",
    "A rejected add_field (e.g. straddling bit-field) is outside the statement; such splits are discarded.",
]
REAL = ["dissect.cstruct StructureMetaType.add_field/start_update/commit/_update_fields, compiler, TokenParser pre-registration"]
STUBS = ["none"]


def gen_case(rng: random.Random, tier: str):
    cfg = gen.gen_config(rng)
    sw = gen.gen_swarm(rng)
    sw["eof"] = False
    for k in ("bits", "nested", "array"):
        if rng.random() < 0.5:
            sw[k] = True
    g = gen.DefGen(rng, swarm=sw, max_fields=8)
    defs = g.build(n_top=rng.randint(1, 2))
    root = defs["structs"][-1]
    n = len(root["fields"])
    # split into steps
    steps = []
    i = 0
    while i < n:
        r = rng.random()
        if r < 0.5:
            k = 1
            mode = "single"
        else:
            k = rng.randint(1, min(4, n - i))
            mode = "batch" if rng.random() < 0.8 else "batch_exc"  # batch_exc: the caller's code raises inside the update block
        uses = [rng.choice(["parse", "default", "dumps", "len", "eq", "parse_fail", "array_of", "sizeof", "sizeof"]) for _ in range(rng.randint(0, 3))]
        steps.append({"n": k, "mode": mode, "uses": uses, "extra_commit": rng.random() < 0.2,
                      # the step happens while an update block of ANOTHER, unrelated structure is open
                      "inside_other_block": rng.random() < 0.15})
        i += k
    # explicit field offsets (Python API only: Field(..., offset=) / add_field(..., offset=)): per field None (computed),
    # a forward gap, or an absolute position at/before an earlier field (0 = the structure start)
    offsets = None
    if rng.random() < 0.3:
        offsets = [rng.choice([None, None, {"gap": rng.randint(0, 5)}, {"gap": rng.randint(0, 5)}, {"abs0": True}, {"back": rng.randint(1, 3)}])
                   for _ in range(n + 1)]
    return {"cfg": cfg, "defs": defs, "selfref": rng.randrange(n + 1) if rng.random() < 0.3 else None, "steps": steps,
            "data_seed": rng.getrandbits(32), "pre_use": rng.random() < 0.3, "nocompile": rng.random() < 0.2, "offsets": offsets}


def _root_text(defs, name, selfref, typedef=False, nocompile=False):
    root = copy.deepcopy(defs["structs"][-1])
    root["name"] = name
    if selfref is not None:
        root["fields"].insert(selfref, {"name": "self_next", "type": name, "inline": None, "ptr": 1, "dims": [], "bits": None})
    root.pop("nocompile", None)
    helpers = {"defines": defs["defines"], "enums": defs["enums"], "typedefs": defs.get("typedefs", []), "structs": defs["structs"][:-1]}
    text = gen.render(helpers)
    flag = "#[nocompile]\n" if nocompile else ""  # the definition language's per-structure opt-out of the compiled reader
    if typedef:
        body = gen.render_struct_body(root)
        return text, f"{flag}typedef {root['kind']} {{\n{body}}} {name};\n"
    return text, flag + gen.render_struct(root)


def _behaviour(T, inputs):
    out = []
    for data in inputs:
        s = io.BytesIO(data)
        try:
            v = T(s)
            o = ["val", observe(v, anon=True), s.tell()]
            try:
                o.append(v.dumps().hex())
            except Exception as e:  # noqa: BLE001
                o.append("dumps:" + type(e).__name__)
            try:
                w = T(io.BytesIO(data))
                o.append([bool(v == w), bool(v != w), bool(v)])
                try:
                    o.append(hash(v) == hash(w))
                except TypeError:
                    o.append("unhashable")
            except Exception as e:  # noqa: BLE001
                o.append("eq:" + type(e).__name__)
        except Exception as e:  # noqa: BLE001
            o = ["exc", type(e).__name__]
        out.append(o)
    try:
        d = T()
        out.append(["default", observe(d, anon=True), bool(d)])
        try:
            out.append(["default_dumps", d.dumps().hex()])
        except Exception as e:  # noqa: BLE001
            out.append(["default_dumps", type(e).__name__])
    except Exception as e:  # noqa: BLE001
        out.append(["default", type(e).__name__])
    # instance behaviour: a default instance mutated in place must not show through in the next default instance
    try:
        d1 = T()
        first = observe(d1, anon=True)
        _mutate_in_place(d1)
        d2 = T()
        out.append(["default_after_mutating_another_default", observe(d2, anon=True) == first])
    except Exception as e:  # noqa: BLE001
        out.append(["default_after_mutating_another_default", type(e).__name__])
    try:
        out.append(["len", len(T)])
    except TypeError:
        out.append(["len", "dynamic"])
    # users of the finished class BY NAME: sizeof in an expression and in a definition loaded afterwards
    try:
        from dissect.cstruct.expression import Expression

        out.append(["sizeof_by_name", Expression(T.cs, f"sizeof({T.__name__})").evaluate()])
    except Exception as e:  # noqa: BLE001
        out.append(["sizeof_by_name", type(e).__name__])
    try:
        if T.cs.resolve(T.__name__) is T:
            un = f"User{len(T.cs.typedefs)}"
            T.cs.load(f"struct {un} {{ uint8 pre; char body[sizeof({T.__name__})]; uint8 post; }};")
            out.append(["later_user_size", T.cs.resolve(un).size])
    except Exception as e:  # noqa: BLE001
        out.append(["later_user_size", type(e).__name__])
    # array types of the finished class
    try:
        A2 = T[2]
        try:
            out.append(["array_len", len(A2)])
        except TypeError:
            out.append(["array_len", "dynamic"])
        for data in inputs[:2]:
            st_ = io.BytesIO(data + data)
            try:
                out.append(["array_parse", observe(A2(st_), anon=True), st_.tell()])
            except Exception as e:  # noqa: BLE001
                out.append(["array_parse", type(e).__name__])
    except Exception as e:  # noqa: BLE001
        out.append(["array", type(e).__name__])
    return out


def _mutate_in_place(v, depth=0):
    """Change every mutable sub-object of an instance in place (list elements, nested structure fields)."""
    from dissect.cstruct.types import Structure
    from dissect.cstruct.types.structure import UnionProxy

    if depth > 4:
        return
    if isinstance(v, UnionProxy):
        return
    if isinstance(v, Structure):
        for f in type(v).__fields__:
            try:
                x = getattr(v, f._name)
            except AttributeError:
                continue
            if isinstance(x, list):
                if x and isinstance(x[0], (Structure, list)):
                    _mutate_in_place(x[0], depth + 1)
                elif x and isinstance(x[0], int) and not isinstance(x[0], bool):
                    try:
                        x[0] = type(x[0])(1) if type(x[0]) is not int else 1
                    except Exception:  # noqa: BLE001
                        x.append(1)
                else:
                    x.append(1)
            elif isinstance(x, Structure) and not hasattr(x, "_buf"):
                _mutate_in_place(x, depth + 1)
                for g in type(x).__fields__:
                    y = getattr(x, g._name, None)
                    if type(y).__mro__[1:2] and isinstance(y, int) and not isinstance(y, bool) and g.bits is None:
                        try:
                            object.__setattr__(x, g._name, type(y)(1))
                        except Exception:  # noqa: BLE001
                            pass
                        break
    elif isinstance(v, list):
        if v and isinstance(v[0], (Structure, list)):
            _mutate_in_place(v[0], depth + 1)
        elif v:
            try:
                v[0] = type(v[0])(1)
            except Exception:  # noqa: BLE001
                v.append(1)
        else:
            v.append(1)


def _sig(T, name):
    import json

    s = json.dumps(layout_signature(T, anon=True))
    return s.replace(name + "*", "SELF*")


def run_case(case, stats):
    from dissect.cstruct import compiler

    cfg = case["cfg"]
    defs = case["defs"]
    sr = case["selfref"]
    # ---- route A: top-level struct (parser pre-registers, extends, commits)
    try:
        csA = gen.make_cs(cfg)
        nc = bool(case.get("nocompile") or defs["structs"][-1].get("nocompile"))
        htext, rtext = _root_text(defs, "R", sr, nocompile=nc)
        csA.load(htext + rtext, compiled=cfg["compiled"], align=cfg["align"])
        RA = csA.R
    except Exception as ex:  # noqa: BLE001
        raise Discard("load_fail_" + type(ex).__name__)
    rng = random.Random(case["data_seed"])
    inputs = []
    for _ in range(3):
        def p(d):
            s = io.BytesIO(d)
            RA(s)
            return s.tell()
        r = gen.accepted_input(rng, p, tries=3, stats=stats)
        if r is not None:
            inputs.append(r[0][: r[1] + 2])
    inputs.append(b"")  # truncated input: both must fail alike
    behA = _behaviour(RA, inputs)
    sigA = _sig(RA, "R")
    shape = gen.shape_digest(defs)

    # ---- route B: one-piece typedef struct
    if sr is None:
        try:
            csB = gen.make_cs(cfg)
            htext, ttext = _root_text(defs, "R", None, typedef=True, nocompile=nc)
            csB.load(htext + ttext, compiled=cfg["compiled"], align=cfg["align"])
            RB = csB.R
        except Exception as ex:  # noqa: BLE001
            raise Violation("routes", "typedef_route_failed", f"top-level struct loads but 'typedef struct {{..}} R' raises {type(ex).__name__}: {ex}")
        stats.count("evaluations")
        sigB = _sig(RB, "R")
        if sigB != sigA:
            raise Violation("layout", "preregistered_vs_one_piece", _diff("top-level struct (pre-registered)", sigA, "typedef struct (one piece)", sigB))
        behB = _behaviour(RB, inputs)
        if behB != behA:
            raise Violation("behaviour", "preregistered_vs_one_piece", _bdiff(behA, behB))

    # ---- route C: add_field / commit history
    csC = gen.make_cs(cfg)
    htext, tmptext = _root_text(defs, "Tmp", sr, nocompile=nc)
    try:
        csC.load(htext + tmptext, compiled=cfg["compiled"], align=cfg["align"])
    except Exception as ex:  # noqa: BLE001
        raise Discard("tmp_load_fail_" + type(ex).__name__)
    harvested = [(f.name, f.type, f.bits) for f in csC.Tmp.__fields__]
    is_union = defs["structs"][-1]["kind"] == "union"
    st = (csC._make_union if is_union else csC._make_struct)("R", [], align=cfg["align"])
    if is_union:
        stats.count("probe.union_built_incrementally")
    if cfg["compiled"] and not nc:
        st = compiler.compile(st)
    csC.add_type("R", st)
    if case["pre_use"]:
        _use(st, "default", b"")
        _use(st, "parse", b"\x01\x02")
    idx = 0
    commits = 0
    pattern = []
    steps = list(case["steps"])
    covered = sum(s_["n"] for s_ in steps)
    if covered < len(harvested):
        steps.append({"n": len(harvested) - covered, "mode": "batch", "uses": [], "extra_commit": False})
    for step in steps:
        chunk = harvested[idx: idx + step["n"]]
        idx += step["n"]
        other_ctx = None
        if step.get("inside_other_block"):
            if "OtherC18" not in csC.typedefs:
                csC.add_type("OtherC18", csC._make_struct("OtherC18", [], align=cfg["align"]))
            other_ctx = csC.OtherC18.start_update()
            other_ctx.__enter__()
            csC.OtherC18.add_field(f"o{idx}", csC.uint8)
            stats.count("probe.step_inside_update_block_of_another_structure")
        try:
            if step["mode"] == "single":
                for name, t, bits in chunk:
                    st.add_field(name, _retarget(csC, t, st), bits=bits)
                    commits += 1
            else:
                try:
                    with st.start_update():
                        for name, t, bits in chunk:
                            st.add_field(name, _retarget(csC, t, st), bits=bits)
                        if step["mode"] == "batch_exc":
                            stats.count("probe.exception_leaves_update_block")
                            raise _CallerError
                except _CallerError:
                    pass
                commits += 1
            if step["extra_commit"]:
                st.commit()
                commits += 1
        except Exception as ex:  # noqa: BLE001
            # e.g. a bit-field run cut in a way add_field rejects: outside the statement
            raise Discard("add_field_rejected_" + type(ex).__name__)
        finally:
            if other_ctx is not None:
                other_ctx.__exit__(None, None, None)
        pattern.append((step["mode"], step["n"], tuple(step["uses"])))
        for u in step["uses"]:
            _use(st, u, inputs[0] if inputs else b"\x00" * 8)
            stats.count("fault.intermediate_use_" + u if u == "parse_fail" else "probe.intermediate_use_" + u)
        stats.count("steps")
    stats.count("evaluations")
    if commits >= 2:
        stats.key(shape, tuple(pattern))
    sigC = _sig(st, "R").replace("Tmp*", "SELF*")
    if sigC != sigA:
        raise Violation("layout", "incremental_vs_declared", _diff("declared in one piece (top-level struct)", sigA, f"add_field history {pattern}", sigC))
    behC = _behaviour(st, inputs)
    if behC != behA:
        raise Violation("behaviour", "incremental_vs_declared", _bdiff(behA, behC) + f" history {pattern}")

    # ---- routes D/E: the same fields with EXPLICIT offsets, one-shot _make_struct([Field(.., offset=)]) against an
    # add_field(.., offset=) history with the same split
    specs = case.get("offsets")
    tmp_offs = [f.offset for f in csC.Tmp.__fields__]
    if specs and sr is None and not is_union and all(o is not None for o in tmp_offs) and not any(b for _, _, b in harvested):
        from dissect.cstruct.types.structure import Field

        offs = []
        shift = 0
        for i_, o in enumerate(tmp_offs):
            sp = specs[i_ % len(specs)]
            if sp is None:
                offs.append(None)
            elif "gap" in sp:
                shift += sp["gap"]
                offs.append(o + shift)
            elif "abs0" in sp:
                offs.append(0)
            else:
                offs.append(tmp_offs[max(0, i_ - sp["back"])])
        if all(o is None for o in offs):
            return
        stats.count("probe.explicit_offsets_compared")
        if any(o == 0 for i_, o in enumerate(offs) if i_):
            stats.count("probe.explicit_offset_zero_on_later_field")

        def build(cs_, incremental):
            if not incremental:
                t_ = cs_._make_struct("R", [Field(nm_, ty_, bits=b_, offset=o_) for (nm_, ty_, b_), o_ in zip(harv, offs)], align=cfg["align"])
                return compiler.compile(t_) if cfg["compiled"] and not nc else t_
            t_ = cs_._make_struct("R", [], align=cfg["align"])
            if cfg["compiled"] and not nc:
                t_ = compiler.compile(t_)
            k_ = 0
            for step in steps:
                chunk = list(zip(harv, offs))[k_: k_ + step["n"]]
                k_ += step["n"]
                if step["mode"] == "single":
                    for (nm_, ty_, b_), o_ in chunk:
                        t_.add_field(nm_, ty_, bits=b_, offset=o_)
                else:
                    try:
                        with t_.start_update():
                            for (nm_, ty_, b_), o_ in chunk:
                                t_.add_field(nm_, ty_, bits=b_, offset=o_)
                            if step["mode"] == "batch_exc":
                                raise _CallerError
                    except _CallerError:
                        pass
                for u in step["uses"]:
                    _use(t_, u, inputs[0] if inputs else b"\x00" * 8)
            return t_

        out = []
        for incremental in (False, True):
            cs_ = gen.make_cs(cfg)
            cs_.load(htext + tmptext, compiled=cfg["compiled"], align=cfg["align"])
            harv = [(f.name, f.type, f.bits) for f in cs_.Tmp.__fields__]
            try:
                t_ = build(cs_, incremental)
                out.append(("ok", _sig(t_, "R"), _behaviour(t_, inputs + [bytes(range(1, 80))])))
            except Exception as ex:  # noqa: BLE001
                out.append(("exc", type(ex).__name__, str(ex)[:80]))
        stats.count("evaluations")
        if out[0][0] != out[1][0] or (out[0][0] == "exc" and out[0][1] != out[1][1]):
            raise Violation("offsets", "one_shot_vs_incremental_outcome", f"explicit offsets {offs}: one-shot {out[0][:2] if out[0][0] == 'exc' else 'ok'}, add_field history {out[1][:2] if out[1][0] == 'exc' else 'ok'}")
        if out[0][0] == "ok":
            if out[0][1] != out[1][1]:
                raise Violation("offsets", "layout_one_shot_vs_incremental", f"explicit offsets {offs}: " + _diff("_make_struct with Field(offset=)", out[0][1], f"add_field(offset=) history {pattern}", out[1][1]))
            if out[0][2] != out[1][2]:
                raise Violation("offsets", "behaviour_one_shot_vs_incremental", f"explicit offsets {offs}: " + _bdiff(out[0][2], out[1][2]))


class _CallerError(Exception):
    """Raised by the harness inside an update block: an error in the caller's own code while it extends a structure."""


def _retarget(cs, t, st):
    """Field types harvested from 'Tmp': a pointer to Tmp becomes a pointer to the structure being built."""
    from dissect.cstruct.types import Pointer

    if isinstance(t, type) and issubclass(t, Pointer) and getattr(t.type, "__name__", "") == "Tmp":
        return cs._make_pointer(st)
    return t


def _use(T, kind, data):
    try:
        if kind == "parse":
            T(io.BytesIO(data))
        elif kind == "parse_fail":
            T(io.BytesIO(data[:1]))
        elif kind == "default":
            T()
        elif kind == "dumps":
            T().dumps()
        elif kind == "len":
            len(T)
        elif kind == "eq":
            T() == T()  # noqa: B015
        elif kind == "array_of":
            len(T[2])  # an array type of the (possibly still incomplete) class
        elif kind == "sizeof":
            # the size of the (possibly still incomplete) class asked for BY NAME, as a later definition would
            from dissect.cstruct.expression import Expression

            Expression(T.cs, f"sizeof({T.__name__})").evaluate()
    except Exception:  # noqa: BLE001 - an intermediate class may legitimately be unusable
        pass


def _diff(na, a, nb, b):
    i = next((k for k in range(min(len(a), len(b))) if a[k] != b[k]), min(len(a), len(b)))
    return f"layout signatures differ at char {i}: {na}: ...{a[max(0, i - 120): i + 200]}... | {nb}: ...{b[max(0, i - 120): i + 200]}..."


def _bdiff(a, b):
    for i, (x, y) in enumerate(zip(a, b)):
        if x != y:
            return f"behaviour item #{i} differs: declared {str(x)[:600]} | other {str(y)[:600]}"
    return f"behaviour lengths differ {len(a)} vs {len(b)}"


def shrink_candidates(case, vinfo):
    if case["selfref"] is not None:
        c = copy.deepcopy(case)
        c["selfref"] = None
        yield c
    root = case["defs"]["structs"][-1]
    for i in range(len(root["fields"])):
        if len(root["fields"]) > 1:
            c = copy.deepcopy(case)
            del c["defs"]["structs"][-1]["fields"][i]
            c["selfref"] = None if case["selfref"] is None else min(case["selfref"], len(root["fields"]) - 1)
            # re-split: one field per single step keeps the history shape simple
            c["steps"] = [{"n": 1, "mode": "single", "uses": [], "extra_commit": False} for _ in range(len(root["fields"]) - 1)]
            yield c
    for si in range(len(case["steps"])):
        s = case["steps"][si]
        if s["uses"] or s["extra_commit"]:
            c = copy.deepcopy(case)
            c["steps"][si]["uses"] = []
            c["steps"][si]["extra_commit"] = False
            yield c
    for d in gen.shrink_defs(case["defs"]):
        if len(d["structs"][-1]["fields"]) == len(root["fields"]):
            c = copy.deepcopy(case)
            c["defs"] = d
            yield c
    for k in ("align", "compiled"):
        if case["cfg"][k]:
            c = copy.deepcopy(case)
            c["cfg"][k] = False
            yield c
