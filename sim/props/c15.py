"""C15 - concurrent parsing with shared types == each thread running alone (engine E-THREAD)."""
from __future__ import annotations

import copy
import io
import random

from sim import gen
from sim.core import REPO, Discard, Violation, cache_knobs
from sim.observe import observe
from sim.sched import HarnessError, Sched

ID = "C15"
LEVEL = "exploration"
TIERS = {"quick": {"runs": 1500, "budget_s": 75, "chunk": 10, "min_runs": 60},
         "thorough": {"runs": 200000, "budget_s": 1500, "chunk": 20, "min_runs": 1000}}
RULE = ("case = seeded (definition set biased to expression-length arrays, bit-fields, unions, pointers, enums; config; 2-4 "
        "threads each with its own accepted input and script parse/dumps/deref on the SHARED type objects); per case a set "
        "of schedules: PCT-style 1-3 pre-emptions at uniformly drawn global library-line steps, function-uniform schedules (a library function of the first thread drawn uniformly, then one of its executed lines), a sweep window placing one pre-emption at each of up to 40 consecutive steps, and overlap "
        "schedules (the first thread is parked inside a library function, another thread runs until it is inside the same function, then back), "
        "sandwich schedules (first thread finishes an op, another is stopped inside a function the first thread's next op runs too) and "
        "first-call schedules (first thread stopped at each line of its FIRST execution of a library function, rarest functions first, "
        "while another thread runs its whole script or enters that function: races on lazily initialised shared state). "
        "evaluations = schedules executed. distinct_nontrivial = distinct (definition-shape digest, decision log) pairs with "
        ">=1 pre-emption taken at a library line while the pre-empted thread was inside a library call.")
RULE2 = "distinct library file:function:line locations at which a pre-emption was actually taken"
ASSUMPTIONS = [
    "Yield points are line events in library frames, generated readers and generated methods (plus enum.py for ~30% of cases); "
    "switches inside one source line are not explored: opcode events were tried and dropped because CPython 3.12 forms "
    "super-instructions after warm-up, which makes the number of opcode events history-dependent and breaks replay.",
    "'Running alone' = the same script on a freshly loaded cstruct with the same definitions in one thread.",
    "Each thread has its own stream and data; only type objects are shared, as the statement requires.",
]
REAL = ["dissect.cstruct (all of it)", "real OS threads (threading.Thread)", "CPython enum/struct"]
STUBS = ["scheduler: baton passing decides which thread runs (stands in for the GIL hand-off choice)"]
FORCE = ("expr", "bits", "union", "ptr", "enum", "array", "null", "nested")


def gen_case(rng: random.Random, tier: str):
    # narrow pointers are favoured: with random input bytes an 8- or 16-bit address usually lies inside the thread's data, so
    # dereferences really read a target instead of failing on a dangling address
    cfg = gen.gen_config(rng, pointer_choices=("uint8", "uint8", "uint16", "uint16", "uint32", "uint64"))
    sw = gen.gen_swarm(rng)
    for k in FORCE:
        if rng.random() < 0.6:
            sw[k] = True
    g = gen.DefGen(rng, swarm=sw, max_fields=6)
    defs = g.build()
    nthreads = rng.randint(2, 4)
    threads = []

    def has_ptr(sd):
        return any(f["ptr"] or (f["inline"] is not None and has_ptr(f["inline"])) for f in sd["fields"])

    ptrs = any(has_ptr(sd) for sd in defs["structs"])
    for t in range(nthreads):
        ops = ["parse"]
        r = rng.random()
        if r < 0.3:
            ops.append(rng.choice(["dumps", "cdumps"]))  # the write path shares the same type objects
        elif ptrs and r < 0.6:
            ops.append("deref")  # lazy dereference is deferred I/O on the thread's own stream through SHARED pointer types
        elif r < 0.8:
            ops.append("parse2")  # the same bytes once more: anything remembered from the first parse is still "valid"
        elif r < 0.88:
            ops.append(rng.choice(["dumps", "deref", "cdumps"]))
        if rng.random() < 0.3:
            ops.append("misc")
        if rng.random() < 0.3:
            ops.insert(1, "uassign")
        threads.append({"data_seed": rng.getrandbits(32), "data": None, "ops": ops, "root": rng.randrange(8)})
    return {"cfg": cfg, "defs": defs, "threads": threads, "sched_seed": rng.getrandbits(32),
            "n_sched": 16 if tier == "quick" else 60, "trace_enum": rng.random() < 0.3, "opcodes": False,
            "schedules": None, "order": rng.sample(range(nthreads), nthreads),
            # tuning knob: capacity of the library's module-level caches for this case (None = as shipped)
            "cache_size": rng.choice([None, None, 1, 2, 3, 5]),
            # every thread's input favours long runs without terminators (null-terminated strings and arrays of 64+
            # elements: block-wise or spilling scanners that keep scratch state between reads)
            "long_data": rng.random() < 0.3}


def _walk_pointers(v, out, depth=0):
    from dissect.cstruct.types import Pointer, Structure

    if depth > 6:
        return
    if isinstance(v, Pointer):
        try:
            out.append(("val", observe(v.dereference(), sizes=False)))
        except Exception as e:  # noqa: BLE001
            out.append(("exc", type(e).__name__))
    elif isinstance(v, Structure):
        for f in type(v).__fields__:
            try:
                _walk_pointers(getattr(v, f._name), out, depth + 1)
            except Exception as e:  # noqa: BLE001
                out.append(("exc", type(e).__name__))
    elif isinstance(v, list):
        for e in v[:4]:
            _walk_pointers(e, out, depth + 1)


def _walk_unions(v, out, depth=0):
    from dissect.cstruct.types import Structure, Union
    from dissect.cstruct.types.structure import UnionProxy

    if depth > 5 or len(out) >= 4:
        return
    if isinstance(v, UnionProxy):
        return
    if isinstance(v, Union):
        out.append(v)
    if isinstance(v, Structure):
        for f in type(v).__fields__:
            try:
                _walk_unions(getattr(v, f._name), out, depth + 1)
            except AttributeError:
                pass
    elif isinstance(v, list):
        for e in v[:2]:
            _walk_unions(e, out, depth + 1)


def _root_of(cs, case, th):
    names = [s_["name"] for s_ in case["defs"]["structs"]]
    # most threads use the last structure (which uses the others); some use another top-level structure that shares
    # nested types, enums and array types with it
    r = th.get("root", 0)
    return getattr(cs, names[-1] if r < 5 else names[r % len(names)])


def make_script(root, th, mark=None):
    data = bytes.fromhex(th["data"])
    ops = th["ops"]

    def script():
        res = []
        v = None
        stream = None
        for op in ops:
            if mark is not None:
                mark()  # records the scheduler step at which this op starts (baseline run only)
            try:
                if op == "parse" or op == "parse2":
                    stream = io.BytesIO(data)
                    v = root(stream)
                    res.append(("val", observe(v), stream.tell()))
                elif op == "dumps":
                    res.append(("val", v.dumps().hex()))
                elif op == "cdumps":
                    # the class-level entry points, for the root type AND for the types of its first fields (several
                    # different types go through the same descriptor one after the other)
                    out = [type(v).dumps(v).hex()]
                    for f in type(v).__fields__[:4]:
                        try:
                            out.append(f.type.dumps(getattr(v, f._name)).hex())
                        except Exception as e:  # noqa: BLE001
                            out.append(type(e).__name__)
                    w = io.BytesIO()
                    type(v).write(w, v)
                    out.append(w.getvalue().hex())
                    res.append(("val", out))
                elif op == "deref":
                    out = []
                    _walk_pointers(v, out)
                    res.append(("val", out, stream.tell()))
                elif op == "uassign":
                    # assignment to members of the unions inside the parsed value (rebuilds the union's buffer and re-reads
                    # its members), then the whole value is observed and dumped
                    us = []
                    _walk_unions(v, us)
                    out = []
                    for u in us[:3]:
                        for f in type(u).__fields__:
                            x = getattr(u, f._name, None)
                            if isinstance(x, int) and not isinstance(x, bool) and not hasattr(x, "name"):
                                try:
                                    setattr(u, f._name, type(x)(int.__index__(x) ^ 1) if type(x) is not int else x ^ 1)
                                    out.append("set")
                                except Exception as e:  # noqa: BLE001
                                    out.append(type(e).__name__)
                                break
                    out.append(observe(v, sizes=False))
                    try:
                        out.append(v.dumps().hex())
                    except Exception as e:  # noqa: BLE001
                        out.append(type(e).__name__)
                    res.append(("val", out))
                elif op == "misc":
                    # other entry points on the shared types: default and keyword construction, comparison, hash, truth
                    # value, repr, the size of the class, an array type of it created at run time
                    T = type(v)
                    out = []
                    for fn in (lambda: observe(T()), lambda: T().dumps().hex(), lambda: [v == T(io.BytesIO(data)), v != T(), bool(v)],
                               lambda: hash(v) == hash(T(io.BytesIO(data))), lambda: repr(v), lambda: len(T),
                               lambda: observe(T[2](io.BytesIO(data + data))), lambda: observe(T(**{T.__fields__[0]._name: getattr(v, T.__fields__[0]._name)}))):
                        try:
                            out.append(fn())
                        except Exception as e:  # noqa: BLE001
                            out.append(type(e).__name__)
                    res.append(("val", out))
            except HarnessError:
                raise
            except Exception as e:  # noqa: BLE001
                res.append(("exc", type(e).__name__))
        return res

    return script


def _load(case):
    cs = gen.make_cs(case["cfg"], gen.render(case["defs"]))
    return cs, getattr(cs, case["defs"]["structs"][-1]["name"])


def run_case(case, stats):
    if case.get("cache_size") is not None:
        n_knobs = cache_knobs(case["cache_size"])
        stats.count("probe.cache_capacity_%d" % case["cache_size"])
        stats.count("fault.cache_capacity_shrunk", n_knobs)
    try:
        cs, root = _load(case)
    except Exception:
        raise Discard("load_fail")
    # per-thread accepted inputs
    for th in case["threads"]:
        if th["data"] is None:
            drng = random.Random(th["data_seed"])
            troot = _root_of(cs, case, th)

            def p(d, troot=troot):
                s = io.BytesIO(d)
                troot(s)
                return s.tell()

            r = gen.accepted_input(drng, p, start_len=(160 + drng.randrange(200)) if case.get("long_data") else (24 + drng.randrange(40)), stats=stats,
                                   long_runs=bool(case.get("long_data")))
            if r is None:
                raise Discard("no_accepted_input")
            th["data"] = r[0][: r[1] + drng.randrange(4)].hex()
    n = len(case["threads"])
    # expected: every script alone on a freshly loaded cstruct
    expected = []
    for th in case["threads"]:
        cs1, root1 = _load(case)
        expected.append(make_script(_root_of(cs1, case, th), th)())
    lib_root = REPO + "/dissect/cstruct"
    shape = gen.shape_digest(case["defs"])

    def execute(preempts, record=False):
        cs2, root2 = _load(case)
        sch = Sched(n, preempts, lib_root, trace_enum=case["trace_enum"], opcodes=case["opcodes"], order=case["order"])
        sch.record = record
        marks = {i: [] for i in range(n)}
        sch.op_marks = marks
        scripts = [make_script(_root_of(cs2, case, th), th, (lambda i=i: marks[i].append(sch.step)) if record else None)
                   for i, th in enumerate(case["threads"])]
        try:
            got = sch.run(scripts)
        except HarnessError as e:
            raise RuntimeError(f"scheduler harness error: {e}")
        stats.count("evaluations")
        stats.count("steps", sch.step)
        for d in sch.decisions:
            stats.count("fault.preemption")
            if d[4]:
                stats.count("probe.preempt_target_midcall")
            stats.count("probe.preempt_in:" + d[3].rsplit(":", 1)[0])
            stats.key2(d[3])
        if sch.overlap:
            stats.count("probe.two_threads_in_same_function", sch.overlap)
        if sch.decisions:
            stats.key(shape, tuple((d[0], d[1], d[2]) for d in sch.decisions))
        stats.log(preempts, got, sch.decisions)
        return got, sch

    # non-preemptive threaded run: measures the step count schedules are drawn over
    got, sch0 = execute([], record=case["schedules"] is None)
    N = sch0.step
    for i in range(n):
        if got[i] != expected[i]:
            raise Violation("concurrent_vs_alone", "nonpreemptive_differs",
                            f"thread {i} after others ran (no pre-emption) got {got[i]} expected {expected[i]}", schedule=[])
    if N < 4:
        raise Discard("too_few_steps")
    if case["schedules"] is None:
        srng = random.Random(case["sched_seed"])
        scheds = []
        for _ in range(case["n_sched"]):
            d = srng.choice((1, 1, 2, 2, 3))
            scheds.append(sorted([srng.randrange(1, N + 1), srng.getrandbits(8)] for _ in range(d)))
        # function-uniform schedules: a library function of the first thread is drawn uniformly (not a step: steps are
        # dominated by the hot parse loops), then one of its executed lines; the thread is pre-empted there and another
        # thread runs (its whole script, or until a second random pre-emption)
        ta0 = [k_ for t_, k_ in sch0.trace if t_ == case["order"][0]]
        funcs = sorted(set(ta0))
        if funcs and len(case["order"]) > 1:
            for _ in range(12 if case["n_sched"] <= 24 else 60):
                F = srng.choice(funcs)
                a = srng.choice([i_ for i_, k_ in enumerate(ta0) if k_ == F])
                plan = [[a + 1, srng.getrandbits(8)]]
                if srng.random() < 0.4:
                    plan.append([a + 1 + srng.randrange(1, 80), srng.getrandbits(8)])
                scheds.append(plan)
        # sweep window: one pre-emption at each of up to 40 consecutive steps
        w0 = srng.randrange(1, N + 1)
        for s in range(w0, min(N, w0 + (30 if case["n_sched"] <= 24 else 120)) + 1):
            scheds.append([[s, srng.getrandbits(8)], [s + srng.randrange(1, 60), srng.getrandbits(8)]])
        # overlap schedules: park the first thread inside a library function F, run another thread until it is inside the
        # same F, switch back - the generic shape of a race on scratch state that F keeps outside its own frame
        order = case["order"]
        A = order[0]
        per = {}
        for tid, key in sch0.trace:
            per.setdefault(tid, []).append(key)
        ta = per.get(A, [])
        n_over = 16 if case["n_sched"] <= 24 else 60
        for _ in range(n_over):
            B = srng.choice([t for t in order if t != A])
            tb = per.get(B, [])
            common = sorted(set(ta) & set(tb))
            if not common:
                break
            F = srng.choice(common)
            a = srng.choice([i for i, k in enumerate(ta) if k == F])
            b = srng.choice([i for i, k in enumerate(tb) if k == F])
            rB = [t for t in order if t != A].index(B)
            rA = [t for t in order if t != B].index(A)
            scheds.append([[a + 1, rB], [a + b + 2, rA]])
        # first-call schedules: the generic shape of a race on LAZILY initialised shared state (check-then-build): the first
        # thread is stopped at every line of its FIRST execution of a library function F (rarely executed functions first),
        # and another thread then runs its whole script - or just until it has entered F itself - before the first resumes
        cnt = {}
        for k_ in ta:
            cnt[k_] = cnt.get(k_, 0) + 1
        others_keys = set()
        for t_ in order[1:]:
            others_keys.update(per.get(t_, []))
        cands = []
        seen_f = set()
        for i_, k_ in enumerate(ta):
            if k_ in seen_f or k_ not in others_keys:
                continue
            seen_f.add(k_)
            j_ = i_
            while j_ < len(ta) and j_ < i_ + 12 and ta[j_] == k_:
                cands.append((cnt[k_], j_, k_))
                j_ += 1
        cands.sort(key=lambda c_: (min(c_[0], 6), srng.random()))
        for c_, j_, k_ in cands[: (36 if case["n_sched"] <= 24 else 200)]:
            B = srng.choice([t for t in order if t != A])
            rB = [t for t in order if t != A].index(B)
            if srng.random() < 0.6:
                scheds.append([[j_ + 1, rB]])
            else:
                tb = per.get(B, [])
                b0 = next((x for x, kk in enumerate(tb) if kk == k_), None)
                if b0 is None:
                    scheds.append([[j_ + 1, rB]])
                else:
                    rA = [t for t in order if t != B].index(A)
                    scheds.append([[j_ + 1, rB], [j_ + b0 + 2 + srng.randrange(0, 6), rA]])
        # sandwich schedules: the first thread completes one op, another thread is stopped somewhere inside its own op,
        # the first thread runs its NEXT op, then the other resumes (state remembered from an earlier call of the first
        # thread meets a half-finished call of the other)
        mA = sch0.op_marks.get(A, [])
        if len(mA) >= 2:
            for _ in range(8 if case["n_sched"] <= 24 else 30):
                B = srng.choice([t for t in order if t != A])
                tb = per.get(B, [])
                if not tb:
                    continue
                # stop the other thread inside a function that the first thread's next op will run as well
                fa = set(ta[mA[1]:])
                cand = [i for i, k in enumerate(tb) if k in fa] or list(range(len(tb)))
                b = srng.choice(cand)
                s1 = mA[1] + 1  # first yield point of A's second op
                rB = [t for t in order if t != A].index(B)
                rA = [t for t in order if t != B].index(A)
                scheds.append([[s1, rB], [s1 + b + 1, rA]])
        case["schedules"] = scheds
    for si, preempts in enumerate(case["schedules"]):
        got, sch = execute(preempts)
        for i in range(n):
            if got[i] != expected[i]:
                raise Violation("concurrent_vs_alone", "interleaved_differs",
                                f"schedule {preempts} decisions {sch.decisions}: thread {i} got {got[i]} expected {expected[i]}",
                                schedule=preempts)


def shrink_candidates(case, vinfo):
    sched = vinfo.get("schedule")
    if sched is not None and case["schedules"] != [sched]:
        c = copy.deepcopy(case)
        c["schedules"] = [sched]
        yield c
    if case["schedules"] and len(case["schedules"]) == 1:
        s = case["schedules"][0]
        for i in range(len(s)):
            c = copy.deepcopy(case)
            c["schedules"] = [s[:i] + s[i + 1:]]
            yield c
    if len(case["threads"]) > 2:
        for i in range(len(case["threads"])):
            c = copy.deepcopy(case)
            del c["threads"][i]
            c["order"] = sorted(range(len(c["threads"])), key=lambda j: case["order"].index(j if j < i else j + 1))
            yield c
    for ti, th in enumerate(case["threads"]):
        if len(th["ops"]) > 1:
            c = copy.deepcopy(case)
            c["threads"][ti]["ops"] = th["ops"][:-1]
            yield c
    if case.get("cache_size") is not None:
        c = copy.deepcopy(case)
        c["cache_size"] = None
        c["schedules"] = None
        yield c
    for k in ("trace_enum", "opcodes"):
        if case[k]:
            c = copy.deepcopy(case)
            c[k] = False
            c["schedules"] = None
            yield c
    for d in gen.shrink_defs(case["defs"]):
        c = copy.deepcopy(case)
        c["defs"] = d
        c["schedules"] = None
        for th in c["threads"]:
            th["data"] = None
        yield c
