"""C16 - pointers: width from configuration, lazy dereference reads the target in place (engine E-PTR)."""
from __future__ import annotations

import copy
import io
import mmap
import random

from sim import gen
from sim.core import Discard, Violation
from sim.observe import observe
from sim.simstream import SimStream

ID = "C16"
LEVEL = "exploration"
TIERS = {"quick": {"runs": 60000, "budget_s": 75, "chunk": 100, "min_runs": 500},
         "thorough": {"runs": 3000000, "budget_s": 1200, "chunk": 300, "min_runs": 10000}}
RULE = ("case = seeded (pointer width 8/16/32/64 x endian x compiled x align; root struct mixing scalars with T*, char*, T**, "
        "pointer arrays; memory image with targets at generated absolute addresses incl. null, dangling and overlapping ones; "
        "history of 3-14 ops on ONE stream: parse root, dereference, re-dereference, pointer arithmetic, attribute access through "
        "the pointer, str(), raw seek/read between dereferences, parse another root, dumps, default-constructed pointers); the "
        "stream is a BytesIO, a logging stream, a BufferedReader or an anonymous mmap; the first root is also parsed from "
        "bytes/bytearray/memoryview objects; 20% of the roots carry pointers to a target whose length is a field of the root. "
        "evaluations = ops checked. distinct_nontrivial = distinct (width, endian, compiled, target kind, address class, kinds of "
        "the two preceding ops) tuples with at least one stream operation between parse and dereference.")
ASSUMPTIONS = [
    "Packed layouts are computed by the harness from the declaration and the configured width; for aligned cases the field "
    "offsets are taken from the library (layout is C04, not claimed here).",
    "The stream position after a FAILING dereference is not constrained (the statement is silent).",
    "Reference for a dereference = the library's own stand-alone parse of the target type from image[address:].",
]
REAL = ["dissect.cstruct Pointer, readers (compiled/interpreted)", "io.BytesIO", "io.BufferedReader", "mmap.mmap (anonymous)", "bytes/bytearray/memoryview inputs (buffer entry points)"]
STUBS = ["SimStream (logging seekable stream) for half of the cases"]

SC = ["uint8", "int8", "uint16", "int16", "uint32", "int32", "uint64", "int64", "uint24", "float"]
W = {"uint8": 1, "uint16": 2, "uint32": 4, "uint64": 8}
TSTRUCT = ("struct T { uint16 a; uint8 b; uint8 c[2]; };\nstruct N { uint16 v; N *next; uint8 *q; };\n"
           # a target whose length is given by a field of the structure HOLDING the pointer (needs the parse context)
           "typedef uint8 CB[cn & 3];\n")
TSIZE = 5


def gen_case(rng: random.Random, tier: str):
    cfg = {"endian": rng.choice("<>!"), "pointer": rng.choice(list(W)), "align": rng.random() < 0.3, "compiled": rng.random() < 0.5}
    w = W[cfg["pointer"]]
    msize = rng.randint(48, 200) if w == 1 else rng.randint(64, 400)
    fields = []
    for i in range(rng.randint(2, 7)):
        r = rng.random()
        if r < 0.3:
            fields.append({"name": f"s{i}", "k": "scalar", "t": rng.choice(SC)})
        elif r < 0.5:
            fields.append({"name": f"p{i}", "k": "ptr", "t": rng.choice(SC), "depth": 1})
        elif r < 0.6:
            fields.append({"name": f"p{i}", "k": "ptr", "t": "T", "depth": 1})
        elif r < 0.68:
            fields.append({"name": f"p{i}", "k": "ptr", "t": "N", "depth": 1})
        elif r < 0.78:
            fields.append({"name": f"p{i}", "k": "ptr", "t": "char", "depth": 1})
        elif r < 0.88:
            fields.append({"name": f"p{i}", "k": "ptr", "t": rng.choice(["uint16", "T", "char"]), "depth": 2})
        else:
            fields.append({"name": f"p{i}", "k": "ptrarr", "t": rng.choice(["uint8", "uint32", "T"]), "depth": 1, "n": rng.randint(1, 3)})
    if not any(f["k"] != "scalar" for f in fields):
        fields.append({"name": "pz", "k": "ptr", "t": "uint16", "depth": 1})
    grow_at = rng.randint(2, 8) if rng.random() < 0.15 else None
    if rng.random() < 0.2:
        fields.insert(0, {"name": "cn", "k": "scalar", "t": "uint8"})
        for i in range(rng.randint(1, 2)):
            fields.append(rng.choice([{"name": f"c{i}", "k": "ptr", "t": "CB", "depth": 1}, {"name": f"c{i}", "k": "ptr", "t": "CB", "depth": 2},
                                      {"name": f"c{i}", "k": "ptrarr", "t": "CB", "depth": 1, "n": 2}]))
    # addresses per pointer slot
    slots = []
    for f in fields:
        if f["k"] == "scalar":
            continue
        for j in range(f.get("n", 1)):
            r = rng.random()
            cls = "valid" if r < 0.62 else ("null" if r < 0.74 else ("dangling" if r < 0.86 else ("edge" if r < 0.93 else "root")))
            slots.append({"f": f["name"], "j": j, "cls": cls, "r": rng.getrandbits(24)})
    ops = [{"op": "parse", "buf": rng.choice([None, None, "bytes", "bytearray", "memoryview", "memoryview-of-bytearray"]),
            "form": rng.choice(["call", "reads", "read"])}]
    for _ in range(rng.randint(3, 14)):
        r = rng.random()
        s = rng.randrange(len(slots))
        if r < 0.3:
            ops.append({"op": "deref", "s": s})
        elif r < 0.4:
            ops.append({"op": "arith", "s": s, "d": rng.choice([1, 2, -1, 4, -3, 8]), "o": rng.choice(["+", "+", "-", "-", "&", "|", "^", "*", "//", "%", "<<", ">>", "**"]),
                        "deref_first": rng.random() < 0.5, "dk": rng.choice(["int", "int", "int", "ptr", "ptr_other", "typed", "bool"]),
                        "s2": rng.randrange(len(slots))})
        elif r < 0.5:
            ops.append({"op": "attr", "s": s})
        elif r < 0.58:
            ops.append({"op": "seek", "r": rng.getrandbits(16)})
        elif r < 0.66:
            ops.append({"op": "read", "n": rng.randint(0, 9)})
        elif r < 0.72:
            ops.append({"op": "parse"})
        elif r < 0.8:
            ops.append({"op": "dumps"})
        elif r < 0.86:
            ops.append({"op": "default_deref", "s": s})
        elif r < 0.9:
            ops.append({"op": "deref2", "s": s})
        elif r < 0.95:
            ops.append({"op": "chain", "s": s, "hops": rng.randint(2, 4)})
        else:
            ops.append({"op": "str", "s": s})
    if grow_at is not None:
        # the target structure T is extended (add_field) in the middle of the history, then the root is parsed again
        ops[grow_at:grow_at] = [{"op": "grow"}, {"op": "parse"}]
    if rng.random() < 0.3:
        ops.insert(rng.randint(1, len(ops)), {"op": "twins", "s": rng.randrange(len(slots))})
    return {"cfg": cfg, "fields": fields, "slots": slots, "msize": msize, "img_seed": rng.getrandbits(32),
            "prewidth": rng.choice(list(W)) if rng.random() < 0.3 else None,
            "root_at": rng.getrandbits(16), "kind": rng.choice(["bytesio", "sim", "sim", "mmap", "buffered"]), "ops": ops,
            "nul_at_end": rng.random() < 0.7}


def render(fields):
    out = [TSTRUCT, "struct R {\n"]
    for f in fields:
        if f["k"] == "scalar":
            out.append(f"  {f['t']} {f['name']};\n")
        elif f["k"] == "ptr":
            out.append(f"  {f['t']} {'*' * f['depth']}{f['name']};\n")
        else:
            out.append(f"  {f['t']} *{f['name']}[{f['n']}];\n")
    out.append("};\n")
    return "".join(out)


def _order(e):
    return "little" if e == "<" else "big"


def _target_ref(cs, tname, depth, image, addr, ctx=None):
    """Stand-alone parse of the target at an absolute address (library reference)."""
    if depth > 1:
        t = cs._make_pointer(cs.resolve(tname)) if depth == 2 else None
        w = cs.pointer.size
        raw = image[addr:addr + w]
        if len(raw) != w:
            return ("exc", "EOFError")
        return ("ptr", int.from_bytes(raw, _order(cs.endian), signed=False))
    t = cs.resolve(tname)
    s = io.BytesIO(image[addr:])
    try:
        if tname == "char":
            v = cs.char[None](s)
        elif tname == "CB":
            v = t._read(s, dict(ctx or {}))
        else:
            v = t(s)
    except Exception as e:  # noqa: BLE001
        return ("exc", type(e).__name__)
    return ("val", _strip(observe(v, sizes=False)))


def _strip(o):
    # char* dereferences to a 'char' holding the string, the reference parse is a 'char[]': same bytes
    if isinstance(o, list) and o and o[0] == "b":
        return ["b", o[2]]
    return o


def run_case(case, stats):
    from dissect.cstruct.exceptions import NullPointerDereference
    from dissect.cstruct.types import Pointer

    cfg = case["cfg"]
    fields = case["fields"]
    try:
        if case.get("prewidth") and case["prewidth"] != cfg["pointer"]:
            # history: pointers to the same target types were first declared under ANOTHER configured width, then the
            # configuration was changed; definitions loaded afterwards must use the width configured at that time
            from dissect.cstruct import cstruct

            cs = cstruct(endian=cfg["endian"], pointer=case["prewidth"])
            cs.load("struct T { uint16 a; uint8 b; uint8 c[2]; };\n"
                    "struct Pre { T *a; uint16 *b; char *c; uint8 *d; uint32 *e; int16 *f; uint64 *g; T **h; uint16 **i; char **j; };",
                    compiled=cfg["compiled"], align=cfg["align"])
            cs.pointer = cs.resolve(cfg["pointer"])
            cs.load(render(fields).replace("struct T { uint16 a; uint8 b; uint8 c[2]; };\n", ""), compiled=cfg["compiled"], align=cfg["align"])
            stats.count("probe.definitions_after_pointer_width_change")
        else:
            cs = gen.make_cs(cfg, render(fields))
        R = cs.R
        # reference parses are done by a second cstruct object with the same configuration and definitions, so that they
        # cannot disturb state that the history under test leaves on the type objects
        cs_ref = gen.make_cs(cfg, render(fields))
    except Exception:
        raise Discard("load_fail")
    w = W[cfg["pointer"]]
    order = _order(cfg["endian"])
    # ---- layout
    if not cfg["align"]:
        offs, o = {}, 0
        for f in fields:
            offs[f["name"]] = o
            o += gen.SIZES.get(f["t"], 0) if f["k"] == "scalar" else w * f.get("n", 1)
        rsize = o
        if R.size != rsize:
            raise Violation("width", "struct_size_disagrees_with_pointer_width",
                            f"packed R has size {R.size}, declaration with {w}-byte pointers needs {rsize}")
    else:
        offs = {f["name"]: R.fields[f["name"]].offset for f in fields}
        rsize = R.size
    M = case["msize"]
    rng = random.Random(case["img_seed"])
    image = bytearray(gen.gen_bytes(rng, M))
    unit = 16 if cfg["align"] else 1
    room = M - rsize
    if room < 0:
        raise Discard("root_does_not_fit")
    roots = [(case["root_at"] % (room + 1)) // unit * unit, ((case["root_at"] >> 5) % (room + 1)) // unit * unit]
    maxaddr = (1 << (8 * w)) - 1
    addrs = {}
    for sl in case["slots"]:
        c = sl["cls"]
        if c == "valid":
            a = 1 + sl["r"] % max(1, M - 12)
        elif c == "null":
            a = 0
        elif c == "dangling":
            a = min(maxaddr, M + sl["r"] % 1000)
        elif c == "edge":
            a = max(1, M - 1 - sl["r"] % 4)
        else:
            a = max(1, roots[0] + sl["r"] % max(1, rsize))
        a = min(a, maxaddr)
        addrs[(sl["f"], sl["j"])] = a
    # linked nodes: a pointer to N that is valid gets a chain of planted nodes behind it (next -> next -> ...)
    fmap0 = {f["name"]: f for f in fields}
    for sl in case["slots"]:
        if fmap0[sl["f"]]["t"] == "N" and sl["cls"] == "valid":
            a = addrs[(sl["f"], sl["j"])]
            for hop in range(3):
                nxt = 1 + ((sl["r"] >> (5 * hop + 3)) * 7 + hop * 13) % max(1, M - 12)
                if a + 2 + w > M:
                    break
                image[a + 2:a + 2 + w] = min(nxt, maxaddr).to_bytes(w, order)
                a = nxt
    for ro in roots:
        for (fname, j), a in addrs.items():
            o = ro + offs[fname] + j * w
            image[o:o + w] = a.to_bytes(w, order)
    # make some char targets NUL terminated within the image
    if case.get("nul_at_end", True):
        image[-1] = 0
    elif image[-1] == 0:
        image[-1] = 0x41  # no terminator before the end of the data: a string target near the end is truncated input
        stats.count("probe.image_without_terminator_at_end")
    image = bytes(image)
    fmap = {f["name"]: f for f in fields}
    cur_ctx = {}
    grown = []  # run state, deliberately not part of the case

    if case["kind"] == "bytesio":
        stream = io.BytesIO(image)
    elif case["kind"] == "mmap":
        stream = mmap.mmap(-1, len(image))
        stream.write(image)
        stream.seek(0)
        stats.count("probe.stream_kind_mmap")
    elif case["kind"] == "buffered":
        stream = io.BufferedReader(io.BytesIO(image), buffer_size=1 + case["img_seed"] % 29)
        stats.count("probe.stream_kind_buffered_reader")
    else:
        stream = SimStream(image)
    cur = None  # current parsed root
    cur_addrs = {}
    cur_at = None
    hist = []
    since_parse_stream_ops = 0

    def ptr_of(root, sl):
        v = getattr(root, sl["f"])
        if fmap[sl["f"]]["k"] == "ptrarr":
            v = v[sl["j"]]
        return v

    def check_deref(p, f, depth, addr, label, img=None):
        """dereference pointer object p (expected target type f['t'] at depth) and compare with the reference."""
        own = img is None  # img given: the pointer came out of a parse of a bytes-like object holding img
        img = image if own else img
        before = stream.tell()
        try:
            v = p.dereference()
            got = ("ptr", int.__index__(v)) if isinstance(v, Pointer) else ("val", _strip(observe(v, sizes=False)))
        except NullPointerDereference:
            got = ("exc", "NullPointerDereference")
        except Exception as e:  # noqa: BLE001
            got = ("exc", type(e).__name__)
        after = stream.tell()
        if addr == 0:
            exp = ("exc", "NullPointerDereference")
        else:
            exp = _target_ref(cs_ref, f["t"], depth, img, addr, ctx=cur_ctx)
        stats.count("evaluations")
        if own and case["kind"] == "mmap" and got == ("exc", "ValueError") and (addr > len(img) or (cfg["align"] and addr + 64 > len(img))):
            # a memory map refuses to be positioned beyond its end (BytesIO and files allow it): a zero-length target at a
            # dangling address cannot be "read" there, and the tail padding of an aligned target at the very end of the data
            # cannot be skipped
            stats.count("probe.mmap_seek_beyond_end_exempt")
            return got, None
        if got[0] == "exc":
            stats.count("fault.deref_raised_" + got[1])
        if (exp[0] == "exc" or addr > len(img)) and got[0] == "exc" and addr != 0 and got[1] != "NullPointerDereference":
            pass  # unreadable target: which error a dangling address raises is not specified (an address beyond the end of
            # the data may be unreachable for the stream even when the target type is empty: OverflowError, ValueError)
        elif got != exp:
            raise Violation("dereference", "differs_from_standalone_parse_at_address",
                            f"{label}: *({f['t']}{'*' * depth})0x{addr:x} gave {got}, stand-alone parse of image[0x{addr:x}:] gives {exp}")
        if got[0] != "exc" and after != before:
            raise Violation("dereference", "moved_the_stream", f"{label}: stream at {before} before, {after} after dereference")
        return got, (v if got[0] != "exc" else None)

    for op in case["ops"]:
        k = op["op"]
        stats.count("steps")
        if k == "parse":
            at = roots[len([h for h in hist if h == "parse"]) % 2]
            stream.seek(at)
            try:
                r = R(stream)
            except Exception as e:  # noqa: BLE001
                raise Violation("width", "root_parse_raised", f"root of {rsize} bytes at {at} inside an image of {M} bytes: "
                                                              f"{type(e).__name__}: {e}")
            end = stream.tell()
            stats.count("evaluations")
            if end != at + rsize:
                raise Violation("width", "consumed_size", f"root at {at}: consumed {end - at}, expected {rsize}")
            cur_addrs = {}
            for sl in case["slots"]:
                p = ptr_of(r, sl)
                raw = image[at + offs[sl["f"]] + sl["j"] * w: at + offs[sl["f"]] + sl["j"] * w + w]
                expv = int.from_bytes(raw, order, signed=False)
                cur_addrs[(sl["f"], sl["j"])] = expv
                if not isinstance(p, Pointer) or int.__index__(p) != expv:
                    raise Violation("width", "pointer_value", f"{sl['f']}[{sl['j']}] = {p!r} ({type(p).__name__}); bytes {raw.hex()} "
                                                               f"as unsigned {order} {w}-byte = {expv}")
            cur, cur_at = r, at
            since_parse_stream_ops = 0
            if "cn" in offs:
                cur_ctx = {"cn": image[at + offs["cn"]]}
            if op.get("buf"):
                # the buffer entry points: the same root bytes at offset 0 of a bytes-like object (addresses are absolute
                # offsets into that object); every pointer of the result is followed
                bi = bytearray(image)
                bi[0:rsize] = image[at:at + rsize]
                bi = bytes(bi)
                arg = {"bytes": bi, "bytearray": bytearray(bi), "memoryview": memoryview(bi), "memoryview-of-bytearray": memoryview(bytearray(bi))}[op["buf"]]
                try:
                    rb = {"call": R, "reads": R.reads, "read": R.read}[op.get("form", "call")](arg)
                except Exception as e:  # noqa: BLE001
                    raise Violation("width", "root_parse_raised", f"root parsed from a {op['buf']} object via {op.get('form')}: {type(e).__name__}: {e}")
                stats.count("probe.root_parsed_from_" + op["buf"])
                for sl in case["slots"]:
                    pb = ptr_of(rb, sl)
                    f_ = fmap[sl["f"]]
                    ab = int.from_bytes(bi[offs[sl["f"]] + sl["j"] * w: offs[sl["f"]] + sl["j"] * w + w], order, signed=False)
                    if not isinstance(pb, Pointer) or int.__index__(pb) != ab:
                        raise Violation("width", "pointer_value", f"{sl['f']}[{sl['j']}] parsed from a {op['buf']} object = {pb!r}, expected {ab}")
                    check_deref(pb, f_, f_["depth"], ab, f"{sl['f']}[{sl['j']}] of a root parsed from a {op['buf']} object via {op.get('form')}", img=bi)
        elif k == "grow":
            if not grown:
                for c_ in (cs, cs_ref):
                    c_.T.add_field("zz", c_.uint8)
                    c_.N.add_field("zz", c_.uint16)
                grown.append(True)
                stats.count("probe.target_structures_extended_mid_history")
            hist.append("grow")
        elif cur is None:
            continue
        elif k == "twins":
            # two roots parsed from the SAME stream object at the same place: what their pointers lead to are two
            # independent instances (changing the target reached through one must not show through the other)
            sl = case["slots"][op["s"]]
            f = fmap[sl["f"]]
            a = cur_addrs[(sl["f"], sl["j"])]
            if f["t"] in ("T", "N") and f["depth"] == 1 and a != 0 and cur_at is not None:
                try:
                    stream.seek(cur_at)
                    r1 = R(stream)
                    stream.seek(cur_at)
                    r2 = R(stream)
                    t1, t2 = ptr_of(r1, sl).dereference(), ptr_of(r2, sl).dereference()
                except Exception:  # noqa: BLE001
                    t1 = t2 = None
                if t1 is not None:
                    stats.count("probe.targets_of_two_parses_compared")
                    before = observe(t2, sizes=False)
                    fld = "a" if f["t"] == "T" else "v"
                    setattr(t1, fld, type(getattr(t1, fld))((int(getattr(t1, fld)) + 1) & 0xFF))
                    if t1 is t2 or observe(t2, sizes=False) != before:
                        raise Violation("dereference", "targets_of_two_parsed_instances_are_one_object",
                                        f"{sl['f']}[{sl['j']}]: the {f['t']} reached through the pointers of two separately parsed roots "
                                        f"(same stream, same address 0x{a:x}) is shared: changing one changed the other")
            hist.append("twins")
        elif k == "chain":
            sl = case["slots"][op["s"]]
            f = fmap[sl["f"]]
            if f["t"] != "N" or f["depth"] != 1:
                continue
            p = ptr_of(cur, sl)
            a = cur_addrs[(sl["f"], sl["j"])]
            for hop in range(op["hops"]):
                if a == 0:
                    break
                got, v = check_deref(p, f, 1, a, f"{sl['f']}[{sl['j']}] hop {hop}")
                if got[0] == "exc" or v is None:
                    break
                stats.count("probe.second_hop_dereference" if hop else "probe.first_hop_dereference")
                # the scalar pointer inside the node as well
                qa = int.__index__(v.q)
                if qa:
                    check_deref(v.q, {"t": "uint8"}, 1, qa, f"{sl['f']}[{sl['j']}] hop {hop} .q")
                p = v.next
                if not isinstance(p, Pointer):
                    raise Violation("dereference", "node_next_not_pointer", f"hop {hop}: next is {type(p).__name__}")
                a = int.__index__(p)
        elif k in ("deref", "deref2", "attr", "str", "arith"):
            sl = case["slots"][op["s"]]
            f = fmap[sl["f"]]
            a = cur_addrs[(sl["f"], sl["j"])]
            p = ptr_of(cur, sl)
            if since_parse_stream_ops:
                stats.key(w, cfg["endian"], cfg["compiled"], f["t"], f["depth"], sl["cls"], tuple(hist[-2:]))
            if k == "deref":
                got, v = check_deref(p, f, f["depth"], a, f"{sl['f']}[{sl['j']}]")
                got2, v2 = check_deref(p, f, f["depth"], a, f"{sl['f']}[{sl['j']}] (second access)")
                if got2 != got:
                    raise Violation("dereference", "not_stable_on_repeated_access", f"{got} then {got2}")
                if got[0] != "exc" and f["t"] in ("T", "N") and f["depth"] == 1 and v2 is not v:
                    # a structure target is a mutable object: repeated access must hand out the object of the first
                    # access, otherwise changes made through the pointer are lost
                    raise Violation("dereference", "not_stable_on_repeated_access", f"{sl['f']}[{sl['j']}]: second access returned another {f['t']} object ({got})")
            elif k == "deref2":
                got, v = check_deref(p, f, f["depth"], a, f"{sl['f']}[{sl['j']}]")
                if f["depth"] == 2 and got[0] == "ptr":
                    stats.count("probe.pointer_to_pointer_followed")
                    if not isinstance(v, Pointer):
                        raise Violation("dereference", "pp_not_pointer", f"**: first dereference is {type(v).__name__}")
                    check_deref(v, f, 1, got[1], f"*{sl['f']}[{sl['j']}]")
            elif k == "arith":
                import operator

                o = op.get("o", "+")
                d = abs(op["d"]) if o not in ("+", "-") else op["d"]
                if o == "+" and d < 0:
                    o, d = "-", -d
                fn = {"+": operator.add, "-": operator.sub, "&": operator.and_, "|": operator.or_, "^": operator.xor, "*": operator.mul,
                      "//": operator.floordiv, "%": operator.mod, "<<": operator.lshift, ">>": operator.rshift, "**": operator.pow}[o]
                # the right operand: a plain int, another pointer (same class on the same stream / the pointer held by
                # another field), a typed integer of the library, a bool
                dk = op.get("dk", "int")
                dv = d
                if dk == "ptr":
                    d = abs(d)
                    dv = type(p).__new__(type(p), d, stream, None)
                elif dk == "ptr_other" and op.get("s2") is not None:
                    other = ptr_of(cur, case["slots"][op["s2"] % len(case["slots"])])
                    if isinstance(other, Pointer) and (o not in ("<<", ">>", "**") and (o not in ("//", "%") or int.__index__(other))):
                        dv, d = other, int.__index__(other)
                    else:
                        dk = "int"
                elif dk == "typed":
                    d = abs(d)
                    dv = cs.uint16(d)
                elif dk == "bool":
                    d, dv = 1, True
                if o == "**":
                    d = 1 + d % 2
                    dv = d if dk in ("int", "bool") else (type(dv).__new__(type(dv), d, stream, None) if isinstance(dv, Pointer) else type(dv)(d))
                stats.count("probe.arith_operand_" + dk)
                if op.get("deref_first") and a:
                    try:
                        p.dereference()  # the source now holds a cached target; the derived pointer must not inherit it
                    except Exception:  # noqa: BLE001
                        pass
                try:
                    q = fn(p, dv)
                except Exception as e:  # noqa: BLE001
                    raise Violation("arithmetic", "raised", f"{p!r} {o} {dv!r}: {type(e).__name__}")
                na = fn(a, d)
                stats.count("evaluations")
                stats.count("probe.arith_" + o)
                if type(q) is not type(p) or int.__index__(q) != na:
                    raise Violation("arithmetic", "type_or_value", f"{p!r} {o} {dv!r} ({dk}) -> {q!r} of type {type(q).__name__}, expected {type(p).__name__} {na}")
                if 0 < na <= maxaddr:  # also from a parsed null pointer: the derived pointer is on the same stream
                    check_deref(q, f, f["depth"], na, f"({sl['f']}[{sl['j']}] {o} {d})")
            elif k == "attr":
                if f["t"] == "T" and f["depth"] == 1 and a != 0:
                    exp = _target_ref(cs_ref, "T", 1, image, a)
                    before = stream.tell()
                    try:
                        got = ("val", int(p.a), int(p.b))
                    except Exception as e:  # noqa: BLE001
                        got = ("exc", type(e).__name__)
                    stats.count("evaluations")
                    if case["kind"] == "mmap" and got == ("exc", "ValueError") and cfg["align"] and a + 64 > len(image):
                        stats.count("probe.mmap_seek_beyond_end_exempt")
                    elif exp[0] == "val":
                        want = ("val", exp[1][2][0][1][2], exp[1][2][1][1][2])
                        if got != want:
                            raise Violation("dereference", "attribute_through_pointer", f"p.a,p.b = {got}, target parses to {want}")
                        if stream.tell() != before:
                            raise Violation("dereference", "moved_the_stream", "attribute access through pointer moved the stream")
                    elif got[0] != "exc":
                        raise Violation("dereference", "attribute_through_pointer", f"target unreadable ({exp}) but p.a gave {got}")
            elif k == "str":
                if a != 0 and f["depth"] == 1:
                    exp = _target_ref(cs_ref, f["t"], f["depth"], image, a, ctx=cur_ctx)
                    try:
                        got = str(p)
                        ok = exp[0] != "exc"
                        if ok and f["depth"] == 1:
                            if f["t"] == "char":
                                want = str(cs_ref.char[None](image[a:]))
                            elif f["t"] == "CB":
                                want = str(cs_ref.resolve("CB")._read(io.BytesIO(image[a:]), dict(cur_ctx)))
                            else:
                                want = str(cs_ref.resolve(f["t"])(image[a:]))
                            if got != want:
                                raise Violation("dereference", "str_of_pointer", f"str(p) = {got!r}, str(target) = {want!r}")
                    except Violation:
                        raise
                    except Exception as e:  # noqa: BLE001
                        if exp[0] != "exc" and a <= len(image) and not (case["kind"] == "mmap" and isinstance(e, ValueError) and (a > len(image) or (cfg["align"] and a + 64 > len(image)))):
                            raise Violation("dereference", "str_of_pointer", f"str(p) raised {type(e).__name__} but target parses: {exp}")
                    stats.count("evaluations")
        elif k == "seek":
            stream.seek(op["r"] % (M + 1))
            since_parse_stream_ops += 1
        elif k == "read":
            stream.read(op["n"])
            since_parse_stream_ops += 1
        elif k == "dumps":
            try:
                b = cur.dumps()
            except Exception as e:  # noqa: BLE001
                raise Violation("dumps", "raised", f"dumps of parsed root raised {type(e).__name__}: {e}")
            stats.count("evaluations")
            for sl in case["slots"]:
                o = offs[sl["f"]] + sl["j"] * w
                if b[o:o + w] != image[cur_at + o: cur_at + o + w]:
                    raise Violation("dumps", "address_not_written_back", f"{sl['f']}[{sl['j']}]: {b[o:o + w].hex()} vs input {image[cur_at + o: cur_at + o + w].hex()}")
        elif k == "default_deref":
            sl = case["slots"][op["s"]]
            d = R()
            p = ptr_of(d, sl) if fmap[sl["f"]]["k"] != "ptrarr" else None
            if p is not None:
                stats.count("evaluations")
                try:
                    p.dereference()
                    raise Violation("null", "default_pointer_dereferenced", "dereferencing a default-constructed pointer returned")
                except NullPointerDereference:
                    stats.count("fault.deref_raised_NullPointerDereference")
                except Violation:
                    raise
                except Exception as e:  # noqa: BLE001
                    raise Violation("null", "wrong_error", f"default pointer dereference raised {type(e).__name__}")
                # a pointer carrying an address but no stream
                t = type(p)
                try:
                    t.__new__(t, 5, None).dereference()
                    raise Violation("null", "streamless_pointer_dereferenced", "pointer without stream dereferenced")
                except NullPointerDereference:
                    pass
                except Violation:
                    raise
                except Exception as e:  # noqa: BLE001
                    raise Violation("null", "wrong_error", f"stream-less pointer dereference raised {type(e).__name__}")
        hist.append(k)
        stats.log(k, stream.tell())


def shrink_candidates(case, vinfo):
    for i in range(len(case["ops"]) - 1, 0, -1):
        c = copy.deepcopy(case)
        del c["ops"][i]
        yield c
    for i in range(len(case["fields"])):
        f = case["fields"][i]
        if len(case["fields"]) > 1:
            c = copy.deepcopy(case)
            del c["fields"][i]
            keep = [j for j, s in enumerate(case["slots"]) if s["f"] != f["name"]]
            if not keep:
                continue
            remap = {old: new for new, old in enumerate(keep)}
            c["slots"] = [case["slots"][j] for j in keep]
            c["ops"] = [dict(o, s=remap[o["s"]]) if "s" in o and o["s"] in remap else o for o in c["ops"] if "s" not in o or o["s"] in remap]
            yield c
    for k in ("align", "compiled"):
        if case["cfg"][k]:
            c = copy.deepcopy(case)
            c["cfg"][k] = False
            yield c
