"""C08 - truncated or failing input never fabricates data (engine E-FAULT, fault enumeration within seeded cases)."""
from __future__ import annotations

import copy
import hashlib
import io
import random
import struct as _st

from sim import gen
from sim.core import Discard, Violation
from sim.observe import observe
from sim.simstream import PipeLikeSimStream, SimStream

ID = "C08"
LEVEL = "fault_enumeration"
TIERS = {"quick": {"runs": 16000, "budget_s": 75, "chunk": 40, "min_runs": 200},
         "thorough": {"runs": 400000, "budget_s": 1200, "chunk": 100, "min_runs": 2000}}
RULE = ("case = seeded (definition set, config, accepted input A); within a case EVERY single fault is enumerated: eof@k for "
        "each cut k in [0,len A), and for each read call i of the fault-free parse: short(m in {0,1,n-1}), empty, none, "
        "raise(EIO|TIMEOUT|EINTR); every seek/tell call: raise; plus sampled 2-3 fault sequences. evaluations = faulted "
        "parses executed. distinct_nontrivial = distinct (definition-shape digest, fault kind, library function that issued "
        "the faulted call, outcome class) tuples where the fault actually fired inside a parse. About 1% of the cases are a "
        "structure around ONE long array (255..65537 elements, lengths at powers of two +-1; fixed, [2][n/2] or header-given "
        "length): there cuts and short reads are SAMPLED at and around element boundaries instead of enumerated. A third of the "
        "cuts is also handed over as bytes/bytearray/memoryview through T(x), T.reads(x), cs.read(name, x) (buffer entry points).")
ASSUMPTIONS = [
    "A read that returns b'' or fewer bytes than requested is the stream's way of signalling end of data (Python file protocol).",
    "To-end-of-stream arrays ([EOF]) are exempt from the equality clause for eof/short/empty faults that land at or after the first "
    "to-end read (their extent is the end of input by definition); all other faults on them are checked.",
    "The stream position left behind by a failed parse is not constrained (the statement is silent).",
    "Twin oracle: a value returned after seeing only byte set D must equal the full parse of every completion of D that parses; "
    "completions tried: complement, zeros, 0xFF, two seeded random fills.",
]
REAL = ["dissect.cstruct parser, compiler-generated readers, all type readers", "io.BytesIO (residue parses)"]
STUBS = ["SimStream (stands in for file/pipe/socket objects)"]


# boundary sizes: arrays long enough to cross block sizes, bulk-path thresholds and 16-bit counters
BIG_LENS = [255, 256, 257, 1023, 1024, 1025, 4095, 4096, 4097, 5000, 8192, 16383, 16384, 16385, 32767, 32768, 32769, 65535, 65536, 65537]
BIG_TYPES = ["uint8", "int8", "char", "int16", "uint16", "wchar", "int24", "uint32", "int32", "float", "uint64", "double", "int64"]
BIG_MAX_BYTES = 140000


def _fld(name, typ, dims=()):
    return {"name": name, "type": typ, "inline": None, "ptr": 0, "dims": list(dims), "bits": None}


def gen_big(rng: random.Random):
    """A structure around ONE long array (fixed length, two-dimensional, or length given by a header field)."""
    t = rng.choice(BIG_TYPES)
    n = rng.choice([x for x in BIG_LENS if x * gen.SIZES[t] <= BIG_MAX_BYTES and (t != "int24" or x <= 1025)])  # int24: one read per element
    fields = []
    mode = rng.choice(["fixed", "fixed", "fixed", "dyn", "2d"])
    if mode == "dyn":
        fields.append(_fld("n", "uint32"))
        dims = ["n"]
    else:
        if rng.random() < 0.5:
            fields.append(_fld("h", rng.choice(["uint8", "uint16", "uint32"])))
        dims = [n] if mode == "fixed" else [2, n // 2]
    fields.append(_fld("arr", t, dims))
    if rng.random() < 0.5:
        fields.append(_fld("t", rng.choice(["uint8", "uint16"])))
    return {"defines": [], "enums": [], "structs": [{"kind": "struct", "name": "Big", "fields": fields}]}, {"t": t, "n": n, "mode": mode}


def _fast_obs(x):
    """observe() for values holding long homogeneous lists: the list payload is hashed (element classes are kept)."""
    from dissect.cstruct.types import Structure

    if isinstance(x, Structure):
        return ["S", type(x).__name__, [[f._name, _fast_obs(getattr(x, f._name))] for f in type(x).__fields__]]
    if isinstance(x, list) and len(x) > 64:
        ts = set(map(type, x))
        if len(ts) == 1:
            et = next(iter(ts))
            if issubclass(et, int) and not issubclass(et, bool):
                payload = repr(list(map(int.__index__, x))).encode()
            elif issubclass(et, float):
                payload = _st.pack(f">{len(x)}d", *x)
            elif issubclass(et, list):
                return ["L", type(x).__name__, [_fast_obs(e) for e in x]]
            else:
                return observe(x, sizes=False)
            return ["LH", type(x).__name__, et.__name__, len(x), hashlib.blake2b(payload, digest_size=12).hexdigest()]
    if isinstance(x, (bytes, str)) and len(x) > 64:
        raw = x if isinstance(x, bytes) else x.encode("utf-16-le", "surrogatepass")
        return ["H", type(x).__name__, len(x), hashlib.blake2b(bytes(raw), digest_size=12).hexdigest()]
    return observe(x, sizes=False)


def gen_case(rng: random.Random, tier: str):
    cfg = gen.gen_config(rng)
    if rng.random() < 0.01:
        defs, big = gen_big(rng)
        return {"cfg": cfg, "defs": defs, "eof_tagged": False, "data_seed": rng.getrandbits(32),
                "data": None, "multi_seed": rng.getrandbits(32), "big": big}
    g = gen.DefGen(rng)
    defs = g.build()
    # what is parsed: usually the last structure; sometimes a bare scalar, an enum/flag or an array type (char[n] included)
    root_sel = None
    r = rng.random()
    if r < 0.04 and [e for e in defs["enums"] if e["name"]]:
        root_sel = {"k": "enum", "name": rng.choice([e["name"] for e in defs["enums"] if e["name"]])}
    elif r < 0.07:
        root_sel = {"k": "scalar", "name": rng.choice(["int16", "uint32", "int64", "int24", "uint48", "wchar", "char", "float", "ileb128", "uint128", "double"])}
    elif r < 0.13:
        root_sel = {"k": "array", "name": rng.choice(["uint16", "int32", "int24", "char", "char", "char", "wchar", "uint8", "uleb128"]), "n": rng.choice([1, 2, 3, 4, 8, 9])}
    return {"cfg": cfg, "defs": defs, "eof_tagged": g.has_eof and root_sel is None, "data_seed": rng.getrandbits(32),
            "data": None, "multi_seed": rng.getrandbits(32), "root_sel": root_sel, "pipe_like": rng.random() < 0.3}


def _outcome(root, stream, obs=None):
    try:
        v = root(stream)
    except BaseException as e:  # noqa: BLE001 - injected faults may be any exception
        if isinstance(e, (KeyboardInterrupt, SystemExit, MemoryError)):
            raise
        return ("exc", type(e).__name__, str(e)[:80])
    return ("val", (obs or _plain_obs)(v))


def _plain_obs(v):
    return observe(v, sizes=False)


def run_case(case, stats):
    cfg = case["cfg"]
    text = gen.render(case["defs"])
    try:
        cs = gen.make_cs(cfg, text)
        root = getattr(cs, case["defs"]["structs"][-1]["name"])
        root_name = case["defs"]["structs"][-1]["name"]
        sel = case.get("root_sel")
        if sel is not None and sel["k"] == "array":
            root, root_name = cs.resolve(sel["name"])[sel["n"]], None
        elif sel is not None:
            root, root_name = cs.resolve(sel["name"]), sel["name"]
    except Exception:
        raise Discard("load_fail")

    big = case.get("big")
    obs = _fast_obs if big else _plain_obs
    # T(b"..") on a structure whose only field is a char (array) of EXACTLY that length constructs instead of parsing (same
    # value); any shorter bytes object is truncated input like any other
    flds = getattr(root, "__fields__", None)
    single_bytes_field = (flds is not None and len(flds) == 1 and issubclass(flds[0].type, bytes)) or (flds is None and issubclass(root, bytes))
    shortcut_size = flds[0].type.size if flds else getattr(root, "size", None)
    # accepted input
    if big:
        # long inputs are regenerated from the seed on every execution (they are not stored in the replay file)
        drng = random.Random(case["data_seed"])
        pat = gen.gen_bytes(drng, 997 + drng.randrange(40))
        body = (pat * (BIG_MAX_BYTES // len(pat) + 2))[: BIG_MAX_BYTES + 256]
        order = "little" if cfg["endian"] == "<" else "big"
        data = (big["n"].to_bytes(4, order) if big["mode"] == "dyn" else b"") + body
        s0 = io.BytesIO(data)
        try:
            root(s0)
        except Exception:
            raise Discard("baseline_raises")
        A = data[: s0.tell()]
        stats.count("probe.big_array_case")
    elif case["data"] is None:
        drng = random.Random(case["data_seed"])

        def p(d):
            s = io.BytesIO(d)
            root(s)
            return s.tell()

        r = gen.accepted_input(drng, p, stats=stats, long_runs=gen.has_null_terminated(case["defs"]))
        if r is None:
            raise Discard("no_accepted_input")
        data, used = r
        A = data[:used] if not case["eof_tagged"] else data[: min(len(data), used, 40 + used % 24)]
        if len(A) > 200:
            raise Discard("input_too_long")
        case["data"] = A.hex()
    if not big:
        A = bytes.fromhex(case["data"])

    # baseline on a fault-free SimStream
    # stream flavour of this case: an ordinary seekable object, or one that says seekable() == False (pipe-like)
    Stream = PipeLikeSimStream if case.get("pipe_like") else SimStream
    if case.get("pipe_like"):
        stats.count("probe.stream_announces_not_seekable")
    base = Stream(A, track=True)
    try:
        V = obs(root(base))
    except Exception:
        raise Discard("baseline_raises")
    X = base.pos
    log = base.log
    reads = [e for e in log if e[0] == "read"]
    n_read, n_seek, n_tell = base.n_read, base.n_seek, base.n_tell
    stats.count("steps", len(log))
    stats.log("baseline", V, log)
    # index of the first "to-end-of-stream" read (read(-1) or the EOF probe)
    eof_phase = None
    eof_byte = None
    for idx, e in enumerate(reads):
        if e[1] is None or e[1] < 0 or e[4].endswith(":_is_eof"):
            eof_phase, eof_byte = idx, e[2]
            break
    shape = gen.shape_digest(case["defs"])

    # residue baselines
    def fresh():
        return _outcome(root, io.BytesIO(A), obs)

    # a second, different input of the same type: its parse must not change either after failed parses
    if big:
        p2 = gen.gen_bytes(random.Random(case["multi_seed"] ^ 0x5A5A), 509)
        A2 = A[:4] + (p2 * (len(A) // len(p2) + 1))[: len(A) - 4]
    else:
        A2 = gen.gen_bytes(random.Random(case["multi_seed"] ^ 0x5A5A), max(8, len(A)))
    V2 = _outcome(root, io.BytesIO(A2), obs)
    if fresh() != ("val", V):
        raise Violation("stream_kind", "simstream_vs_bytesio", f"fault-free SimStream and BytesIO disagree on {A.hex()}")

    # ---- deferred I/O: pointers of the parsed value are dereferenced on streams that hold the complete structure but are
    # cut somewhere in the data BEHIND it (where targets live): a dereference gives what it gives on the uncut data, or raises
    if not big and case.get("root_sel") is None and not case["eof_tagged"] and case.get("only_plan") is None:
        _deferred_reads(root, A, case, stats)

    # fault plans: full single-fault enumeration (long inputs: cuts and short reads sampled at and around element boundaries)
    mrng = random.Random(case["multi_seed"])
    if big:
        esz = gen.SIZES[big["t"]]
        r_arr = max(reads, key=lambda e: e[3] if isinstance(e[3], int) else 0)
        a0 = r_arr[2]
        ks = {0, 1, len(A) - 1, max(0, len(A) - esz), a0, a0 + esz}
        for _ in range(6):
            ks.add(a0 + esz * mrng.randrange(1, big["n"]))
        for thr in (4096, 0x10000 // esz, 256, 1024):
            if thr < big["n"]:
                ks.add(a0 + esz * thr)
        for _ in range(3):
            ks.add(mrng.randrange(len(A)))
        plans = [[{"kind": "eof", "k": k}] for k in sorted(k for k in ks if 0 <= k < len(A))]
    else:
        plans = [[{"kind": "eof", "k": k}] for k in range(0, len(A))]
    sel = None
    if big and len(reads) > 8:
        # element-wise readers issue one read per element: sample the faulted read calls
        sel = {0, 1, len(reads) - 1, len(reads) - 2} | {mrng.randrange(len(reads)) for _ in range(4)}
    for i, e in enumerate(reads):
        if sel is not None and i not in sel:
            continue
        n = e[1]
        got = e[3]
        ms = {0, 1, max(0, got - 1)} if got else {0}
        if big and got and got > 64:
            ms |= {esz * mrng.randrange(1, max(2, got // esz)), esz * min(4096, got // esz - 1), mrng.randrange(got)}
        for m in sorted(ms):
            if (n is None or n < 0 or m < n) and m < max(got, 1):
                plans.append([{"kind": "short", "i": i, "m": m}])
        plans.append([{"kind": "empty", "i": i}])
        plans.append([{"kind": "none", "i": i}])
        for ex in ("EIO", "TIMEOUT", "EINTR"):
            plans.append([{"kind": "raise_read", "i": i, "e": ex}])
    for i in (range(n_seek) if not big else sorted({0, n_seek - 1, mrng.randrange(max(1, n_seek))} & set(range(n_seek)))):
        plans.append([{"kind": "raise_seek", "i": i, "e": "UNSUP"}])
    for i in (range(n_tell) if not big else sorted({0, n_tell - 1, mrng.randrange(max(1, n_tell))} & set(range(n_tell)))):
        plans.append([{"kind": "raise_tell", "i": i, "e": "EIO"}])
    # sampled multi-fault sequences
    if n_read >= 2:
        for _ in range(8):
            i = mrng.randrange(n_read)
            j = min(n_read - 1, i + mrng.randint(1, 2))
            a = mrng.choice([{"kind": "short", "i": i, "m": mrng.randint(0, 2)}, {"kind": "empty", "i": i}])
            b = mrng.choice([{"kind": "short", "i": j, "m": mrng.randint(0, 2)}, {"kind": "empty", "i": j},
                             {"kind": "raise_read", "i": j, "e": "EIO"}])
            plan = [a, b] if i != j else [a]
            if mrng.random() < 0.5:
                plan.append({"kind": "eof", "k": mrng.randrange(len(A) + 1)})
            plans.append(plan)
    if case.get("only_plan") is not None:
        plans = [case["only_plan"]]

    for plan in plans:
        st = Stream(A, faults=plan, track=True)
        out = _outcome(root, st, obs)
        stats.count("evaluations")
        stats.count("steps", len(st.log))
        kinds = [f["kind"] for f in plan]
        fired = st.fired
        for k, who in fired:
            stats.count("fault." + k)
        stats.log(plan, out)
        for k, who in fired:
            stats.key(shape, k, who, out[0] if out[0] == "val" else out[1])
            stats.count("probe.fault_in:" + who)
        # ---- oracle clause 1: never fabricates
        if out[0] == "val":
            if fired:
                stats.count("probe.value_returned_despite_fault")
            W = out[1]
            exempt = False
            if eof_phase is not None:
                # the type reads to the end of input: a cut, or a short/empty read at or after the first to-end read,
                # defines a different input (the statement's aside)
                for f in plan:
                    if f["kind"] == "eof":
                        exempt = True
                    if f["kind"] in ("short", "empty", "none") and f["i"] >= eof_phase:
                        exempt = True
                if exempt:
                    stats.count("probe.exempt_to_end_of_stream")
            if not exempt:
                if W != V:
                    raise Violation("never_fabricates", "value_differs_from_complete",
                                    f"plan={plan} returned {W} but complete input gives {V}", plan=plan)
                if fired:
                    # twin check: the parser saw only the delivered bytes D
                    D = st.delivered
                    for fill in ("comp", "zero", "ff", "r1", "r2"):
                        tw = _twin(A, D, fill)
                        if tw == A:
                            continue
                        o2 = _outcome(root, io.BytesIO(tw), obs)
                        stats.count("twin_parses")
                        if o2[0] == "val" and o2[1] != W:
                            raise Violation("never_fabricates", "value_without_data",
                                            f"plan={plan} returned a value after seeing only {bytes(D).count(1)}/{len(A)} bytes; "
                                            f"completion {fill} of those bytes parses to a different value", plan=plan)
        else:
            # ---- clause 2: error kind for pure truncation
            in_to_end = eof_phase is not None and kinds == ["eof"] and plan[0]["k"] >= eof_byte
            if in_to_end:
                # cut inside a to-end-of-stream array: a different (possibly ragged) input; what it must do is C07's matter
                stats.count("probe.exempt_to_end_of_stream")
            elif kinds == ["eof"] and out[1] != "EOFError":
                raise Violation("error_kind", "truncation_not_EOFError:" + out[1],
                                f"cut at {plan[0]['k']} of {len(A)} raised {out[1]}({out[2]})", plan=plan)
        # ---- the buffer entry points: the same truncated data handed over as bytes / bytearray / memoryview through
        # T(x), T.reads(x) and cs.read(name, x) must end like the truncated stream did (same value or the same error class)
        if kinds == ["eof"] and stats.c["evaluations"] % 3 == 1 and not (single_bytes_field and plan[0]["k"] == shortcut_size):
            cut = A[: plan[0]["k"]]
            form = stats.c["evaluations"] // 3 % 5
            arg = (cut, cut, bytearray(cut), memoryview(cut), cut)[form]
            fn = (root, root.reads, root, root.reads, (lambda x: cs.read(root_name, x)) if root_name else root)[form]
            o2 = _outcome(fn, arg, obs)
            stats.count("probe.truncated_buffer_entry_point")
            if (o2[0], o2[1]) != (out[0], out[1]):
                raise Violation("never_fabricates", "buffer_entry_point_differs_from_stream",
                                f"plan={plan}: truncated data as {type(arg).__name__} via form #{form} gives {o2[:2]}, the truncated stream gave {out[:2]}", plan=plan)
        # ---- clause 4: no residue - also on the SAME stream object: the faults of the plan are spent, a parse from the
        # start of that very stream must now give the complete value (plans with a cut keep their cut, so they are skipped)
        if "eof" not in kinds and stats.c["evaluations"] % 3 == 0:
            try:
                st.by_read.clear()
                st.by_seek.clear()
                st.by_tell.clear()  # whatever part of the plan has not fired is withdrawn: the stream is healthy from now on
                st.seek(0)
                again = _outcome(root, st, obs)
            except Exception as e:  # noqa: BLE001
                again = ("exc", type(e).__name__, "")
            stats.count("probe.same_stream_reparse")
            if again != ("val", V):
                raise Violation("no_residue", "same_stream_reparse_differs",
                                f"after faulted parse plan={plan} parsing again from offset 0 of the SAME stream object gives {again} instead of {V}", plan=plan)
        if stats.c["evaluations"] % 7 == 0:
            r2 = _outcome(root, io.BytesIO(A2), obs)
            if r2 != V2:
                raise Violation("no_residue", "later_parse_of_other_input_changed",
                                f"after faulted parse plan={plan} parsing another input {A2.hex()} gives {r2} instead of {V2}", plan=plan)
        r = fresh()
        if r != ("val", V):
            raise Violation("no_residue", "later_parse_changed",
                            f"after faulted parse plan={plan} a fresh parse of the complete input gives {r} instead of {V}", plan=plan)


_UNSEEN = bytes(0xFF if i == 0 else 0 for i in range(256))


def _pointers(v, out, depth=0):
    from dissect.cstruct.types import Pointer, Structure

    if depth > 5 or len(out) >= 8:
        return
    if isinstance(v, Pointer):
        out.append(v)
    elif isinstance(v, Structure):
        for f in type(v).__fields__:
            try:
                _pointers(getattr(v, f._name), out, depth + 1)
            except AttributeError:
                pass
    elif isinstance(v, list):
        for e in v[:3]:
            _pointers(e, out, depth + 1)


def _deref_all(root, stream):
    v = root(stream)
    ps = []
    _pointers(v, ps)
    res = []
    for p in ps:
        try:
            t = p.dereference()
            res.append(("val", observe(t, sizes=False) if not isinstance(t, int) or isinstance(t, bool) else ["i", int.__index__(t)]))
        except Exception as e:  # noqa: BLE001
            res.append(("exc", type(e).__name__))
    return [int.__index__(p) for p in ps], res


def _deferred_reads(root, A, case, stats):
    import mmap

    rng = random.Random(case["multi_seed"] ^ 0x77)
    B = A + gen.gen_bytes(rng, 72, long_runs=rng.random() < 0.5)
    def make(kind, data):
        if kind == "mmap":
            st_ = mmap.mmap(-1, len(data))
            st_.write(data)
            st_.seek(0)
            return st_
        return SimStream(data)

    # the uncut reference is a BytesIO over all the data. Where that reference could not even POSITION the stream at the
    # address (OverflowError / ValueError for addresses >= 2**63) nothing is demanded: what an unreachable address does is a
    # matter of the stream kind, not of the truncation (an empty target type reads nothing there on a stream that accepts
    # any position). An EOFError of the reference means "positioned, but the data is not there": a value is fabricated.
    try:
        addrs, full = _deref_all(root, io.BytesIO(B))
    except Exception:  # noqa: BLE001
        return
    if not addrs:
        return
    stats.count("probe.case_with_pointers_dereferenced")
    cuts = {len(A), len(B) - 1, len(A) + 1}
    for a in addrs:
        for d in (1, 2, 3, 5, 9):
            if len(A) <= a + d < len(B):
                cuts.add(a + d)
    cuts |= {rng.randrange(len(A), len(B)) for _ in range(3)}
    for k in sorted(cuts)[:10]:
        for kind in ("sim", "mmap"):
            if kind == "mmap" and k == 0:
                continue
            try:
                addrs2, got = _deref_all(root, make(kind, B[:k]))
            except Exception:  # noqa: BLE001
                continue
            stats.count("evaluations")
            stats.count("fault.eof_behind_structure_" + kind)
            for i, (g, f_) in enumerate(zip(got, full)):
                if f_[0] == "exc" and f_[1] in ("OverflowError", "ValueError"):
                    continue
                if g[0] == "val" and g != f_:
                    raise Violation("never_fabricates", "dereference_on_truncated_data_returns_other_value",
                                    f"data cut at {k} of {len(B)} ({kind} stream; the structure itself ends at {len(A)}): dereferencing pointer #{i} "
                                    f"(address {addrs[i]}) gives {g}, on the uncut data {f_}")


def _twin(A: bytes, D: bytearray, fill: str) -> bytes:
    if len(A) > 400:
        # long inputs: the same completions computed with big-integer masks
        n = len(A)
        mask = int.from_bytes(bytes(D).translate(_UNSEEN), "big")
        a = int.from_bytes(A, "big")
        if fill == "comp":
            v = a ^ mask
        elif fill == "zero":
            v = a & ~mask
        elif fill == "ff":
            v = a | mask
        else:
            rr = random.Random(n * 7 + (1 if fill == "r1" else 2))
            v = (a & ~mask) | (int.from_bytes(rr.randbytes(n), "big") & mask)
        return v.to_bytes(n, "big")
    out = bytearray(A)
    rr = random.Random(len(A) * 7 + (1 if fill == "r1" else 2))
    for i in range(len(A)):
        if not D[i]:
            if fill == "comp":
                out[i] = A[i] ^ 0xFF
            elif fill == "zero":
                out[i] = 0
            elif fill == "ff":
                out[i] = 0xFF
            else:
                out[i] = rr.choice((0, 1, 2, 3, 0x41, 0x80, 0xFF, rr.randrange(256)))
    return bytes(out)


def shrink_candidates(case, vinfo):
    if vinfo.get("plan") is not None and case.get("only_plan") is None:
        c = copy.deepcopy(case)
        c["only_plan"] = vinfo["plan"]
        yield c
    for d in gen.shrink_defs(case["defs"]):
        c = copy.deepcopy(case)
        c["defs"] = d
        c["data"] = None
        c["only_plan"] = None
        yield c
    if case["data"]:
        A = bytes.fromhex(case["data"])
        for i in range(len(A)):
            if A[i] != 1:
                c = copy.deepcopy(case)
                c["data"] = (A[:i] + b"\x01" + A[i + 1:]).hex()
                yield c
    for k in ("align", "compiled"):
        if case["cfg"][k]:
            c = copy.deepcopy(case)
            c["cfg"][k] = False
            c["data"] = None
            yield c
