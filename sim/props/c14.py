"""C14 - no hidden shared state: instances, defaults and cstruct objects are independent (engine E-WORLD)."""
from sim import world

ID = "C14"
MODE = "C14"
LEVEL = "exploration"
FORK_PER_RUN = True  # every world runs in a child forked from a worker that never executes library code
TIERS = {"quick": {"runs": 2500, "budget_s": 75, "chunk": 20, "min_runs": 100},
         "thorough": {"runs": 400000, "budget_s": 1500, "chunk": 40, "min_runs": 2000}}
RULE = ("case = seeded world of 2-4 logical clients, each with its own cstruct object, colliding type/field names, and a script of "
        "8-30 ops (load, default, parse, reparse, truncated parse, field/array/nested mutation incl. out-of-range values, dump, "
        "set_endian, load_more, malformed load, add_type, resolve of foreign names, expression eval, construction incl. explicit None, "
        "incremental add_field with update blocks kept open across other clients, #defines loaded after the structures and "
        "redefined later, a custom type (add_custom_type) with a mutable payload changed in place) interleaved by a seeded "
        "scheduler with bursts. evaluations = worlds executed. distinct_nontrivial = distinct (interleaving, op-kind sequence) "
        "digests in which control switched between clients at least twice.")
RULE2 = "distinct adjacent cross-client (op kind, op kind) pairs"
ASSUMPTIONS = [
    "Only the handle targeted by a mutating op may change its observation; instances never share sub-objects by construction of the scripts.",
    "Isolation reference = the same script alone in a child forked from a process that imported the library but never used it; every world itself also runs in such a child.",
    "Ops that raise (malformed load, truncated parse, out-of-range dump) are faults: they must raise identically alone and change nothing else.",
]
REAL = ["dissect.cstruct (all of it) incl. lru_cache'd templates and struct cache"]
STUBS = ["client interleaver (seeded)", "forked pristine child processes for isolated replays"]


def gen_case(rng, tier):
    return world.gen_world(rng, tier, MODE)


def run_case(case, stats):
    world.run_world(case, stats, MODE)


def shrink_candidates(case, vinfo):
    return world.shrink_world(case, vinfo)
