import json,sys
sys.path.insert(0,'/verif')
from sim import gen
for f in sys.argv[1:]:
    r=json.load(open(f))
    c=r['case']
    if 'defs' in c: print(gen.render(c['defs']))
    print({k:v for k,v in c.items() if k!='defs'}); print(r['violation']['oracle'], r['violation']['kind']); print(r['violation']['detail'][:3000]); print('---')
