#!/bin/bash
# tools/try_seed.sh <PROP> <worktree-with-patch-applied> <seed-name> [check ids...]
# Confirms a seeded change (tests pass with it, demo fails with it and passes without) and runs the named checks against it.
prop=$1; wt=$2; name=$3; shift 3; checks=${@:-$prop}
out=/verif/seeded/$name; mkdir -p $out
cp $wt/SEED/patch.diff $wt/SEED/demo.py $wt/SEED/notes.md $out/ 2>/dev/null
# sub-agents shared one git stash across worktrees: rebuild the worktree state from the recorded patch
git -C $wt checkout -q -- dissect tests; git -C $wt apply $wt/SEED/patch.diff || { echo "patch does not apply"; exit 3; }
git -C $wt diff -- dissect > $out/patch.diff
t=$(cd $wt && PYTHONPATH=$wt /venv/bin/python -m pytest -q -p no:cacheprovider tests 2>&1 | tail -1)
PYTHONPATH=$wt /venv/bin/python $wt/SEED/demo.py > $out/demo_with_patch.txt 2>&1; d1=$?
base=$(mktemp -d /tmp/seedbase_XXXX); git -C /repo archive HEAD dissect | tar -x -C $base
sed "s#$wt#$base#g" $wt/SEED/demo.py > $base/demo.py
PYTHONPATH=$base /venv/bin/python $base/demo.py > $out/demo_without_patch.txt 2>&1; d0=$?
rm -rf $base
echo "tests: $t | demo with patch exit=$d1 | demo without patch exit=$d0"
res=""
for c in $checks; do
  tmp=$(mktemp -d /tmp/seedrun_XXXX)
  o=$(VERIF_REPO=$wt VERIF_EVIDENCE_DIR=$tmp timeout 900 /verif/check $c --tier quick 2>&1 | grep -v KNOWN-FINDING | tail -4 | cut -c1-400)
  rc=$(echo "$o" | grep -c "^VIOLATION property=$c")
  echo "--- check $c: $( [ $rc -gt 0 ] && echo CAUGHT || echo MISSED )"; echo "$o"
  res="$res $c:$( [ $rc -gt 0 ] && echo caught || echo missed )"
  rm -rf $tmp
done
/venv/bin/python - "$prop" "$name" "$t" "$d1" "$d0" "$res" <<'PY'
import json,sys
prop,name,t,d1,d0,res=sys.argv[1:7]
notes=open(f'/verif/seeded/{name}/notes.md').read() if __import__('os').path.exists(f'/verif/seeded/{name}/notes.md') else ''
json.dump({"breaks":prop,"needs_to_manifest":notes[:1500],"confirmed":{"tests_with_patch":t,"demo_exit_with_patch":int(d1),"demo_exit_without_patch":int(d0)},
 "checks_run":{k:v for k,v in (x.split(':') for x in res.split())},"how":"tools/try_seed.sh: pytest in the patched worktree; demo.py with PYTHONPATH=patched worktree and with a pristine export of /repo HEAD; ./check <id> --tier quick with VERIF_REPO=patched worktree"},
 open(f'/verif/seeded/{name}/meta.json','w'),indent=1)
PY
