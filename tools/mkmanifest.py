#!/venv/bin/python
"""Regenerates /verif/MANIFEST.json from the table below (single source for the interface file)."""
import json, os
V = os.path.dirname(os.path.dirname(os.path.abspath(__file__)))

NA = {
 "C01": "pure function of (definition, value, configuration): no stream fault, history or schedule in any clause; a simulator would only generate inputs (DESIGN 5)",
 "C02": "pure function of (definition, bytes, configuration); no schedule, fault or history to simulate (DESIGN 5)",
 "C03": "differential test of two pure functions (compiled vs interpreted reader) that never interact; not a simulation target (DESIGN 5)",
 "C04": "layout is a pure function of the declaration; the oracle would be a C compiler, not a history (DESIGN 5)",
 "C06": "bit-field partitioning is a pure function of (width sequence, unit contents, endianness) (DESIGN 5)",
 "C07": "array length semantics are a pure function of (element type, length form, bytes) (DESIGN 5)",
 "C12": "enum value preservation and numbering are pure functions of (declaration, underlying value) (DESIGN 5)",
 "C19": "hexdump/pack/unpack/swap are pure functions of bytes and integers (DESIGN 5)",
 "C20": "stub generation is a pure function of the loaded definition set (DESIGN 5)",
}

CHECKS = {
 "C08": dict(engine="E-FAULT", cat="fault_enumeration", ref="4.2",
   technique="deterministic simulation with fault injection: seeded cases, exhaustive single-fault placement on a simulated stream (every cut point, every read/seek/tell call), twin-input oracle",
   text="Seeded search over (definition set, configuration, accepted input); inside each case every single stream fault is enumerated (EOF at each byte, short/empty/None/raising read at each read call, raising seek/tell at each call) plus sampled 2-3 fault sequences, on a stream object the simulator owns. Oracle: a faulted parse raises (EOFError for pure truncation) or returns the fault-free value; a returned value must equal the full parse of every tried completion of the bytes actually delivered; a fresh parse afterwards is unchanged. Sampling over cases, exhaustive over single faults within a case.",
   note="Trusts: SimStream models file/pipe/socket read semantics; b'' / short read means end of data; to-end-of-stream arrays exempt as the statement says; _sizes bookkeeping is not part of the compared value; position after a failed parse unconstrained."),
 "C15": dict(engine="E-THREAD", cat="exploration", ref="4.8",
   technique="deterministic simulation: real threads under a seeded cooperative scheduler (sys.settrace line events as pre-emption points, baton passing), PCT-style bounded pre-emption schedules plus single-pre-emption sweeps, compared with each thread running alone",
   text="Seeded search over (definitions biased to expressions, bit-fields, unions, pointers, enums; 2-4 threads with own streams sharing the type objects; schedules). The simulator owns the only source of nondeterminism (which thread runs after each library source line), so every schedule replays exactly. Oracle: every thread's observations and exceptions equal those of its script run alone on a freshly loaded cstruct. Sampling of schedules with at most 3 pre-emptions plus windows of exhaustive single pre-emption placement; not exhaustive.",
   note="Trusts: line-granularity yield points (switches inside one source line not explored); CPython executes one bytecode atomically; the tracer does not change library behaviour."),
 "C14": dict(engine="E-WORLD", cat="exploration", ref="4.7",
   technique="deterministic simulation: seeded interleaving of several logical clients over the library's process-global state, operations that raise as injected faults, per-step frame invariant plus serialisability against each client run alone in a pristine forked process",
   text="Seeded worlds of 2-4 clients (own cstruct objects, colliding and identical definitions, scripts of load/default/parse/mutate/dump/set_endian/add_type/malformed load/...) interleaved by a seeded scheduler. After every step only the targeted instance may change (all live instances of all clients are re-observed); defaults and repeated parses must repeat; afterwards every client's outcome log must equal the log of the same script run alone in a child forked from a process that never used the library. Sampling, not exhaustive.",
   note="Trusts: observation covers field values, _sizes and type names; scripts never share sub-objects between instances on purpose; every world runs in its own forked child so hidden global state cannot leak between runs."),
 "C17": dict(engine="E-WORLD", cat="exploration", ref="4.7",
   technique="deterministic simulation: the E-WORLD client interleaver varies class-creation order and histories of assignments; per-step reference model (field-wise equality/truthiness computed structurally, default+assign construction, byte-locality of assignment)",
   text="Same world engine with a value-semantics workload: eq/ne, hash, bool, positional/keyword construction, single-field assignment with dumps before/after, cross-cstruct equality. Each op is judged against a small structural model that never calls the structure's own __eq__/__bool__; class-creation order across clients (generated methods are cached by field count and patched per class) is the searched dimension, and each client's log must equal its log when run alone.",
   note="Trusts: field offsets/sizes come from the library's own field table (layout is C04, not claimed); unions are excluded from the equality and locality oracles (bytes-based equality, C11); NaN-holding instances are skipped."),
 "C09": dict(engine="E-POS", cat="exploration", ref="4.3",
   technique="deterministic simulation: seeded histories of seek/read/parse/failing-parse operations on one simulated seekable stream, differential oracle against stand-alone parses, re-randomised twin images, input-kind and call-form cross-check",
   text="Seeded search over (definitions, config, stream image with junk prefix/gap/suffix, history of 2-8 stream operations incl. parses that fail half-way on injected read errors). Every parse at position p must give the value (incl. recorded sizes), consumed length or exception class of a stand-alone parse of image[p:]; one parse per case is repeated with all bytes outside its extent re-randomised; bytes, bytearray, memoryview and stream inputs through all four call forms must agree. Sampling.",
   note="Trusts: the library's stand-alone parse from offset 0 as reference (differential); aligned definitions only at offsets that are multiples of 16; [EOF] types keep their suffix in the twin."),
 "C16": dict(engine="E-PTR", cat="exploration", ref="4.9",
   technique="deterministic simulation: seeded histories on one simulated seekable stream where dereference is deferred I/O interleaved with other reads/seeks/parses; null, stream-less and dangling pointers as faults; differential oracle against stand-alone parses at the absolute address",
   text="Seeded search over (pointer width 8-64, endianness, compiled/interpreted, align; root structs with T*, char*, T**, pointer arrays; memory images with valid, null, dangling, edge and self-overlapping addresses; histories of parse/deref/re-deref/arithmetic/attribute/str/raw seek+read/dumps/default-pointer ops on ONE stream). Oracles: stored value = unsigned integer of the configured width at the field; root consumes the declared size; dereference = stand-alone parse at the address, leaves the stream where it was, repeats identically; arithmetic keeps type and stream; null/stream-less raise NullPointerDereference; dumps writes addresses back. Sampling.",
   note="Trusts: packed layout computed by the harness, aligned offsets from the library; position after a failing dereference unconstrained; error class for dangling addresses unspecified."),
 "C10": dict(engine="E-EXPR", cat="exploration", ref="4.4",
   technique="deterministic simulation: seeded evaluation histories on shared Expression objects (repeat, other context, after failing evaluations, after constant redefinition, through array-length parses and enum/#define embedding) judged step by step by a reference precedence-climbing evaluator",
   text="Seeded search over (pools of well-formed expression texts from the statement's grammar, constants, histories of 4-24 ops on the same Expression objects). Every evaluation is compared with a reference evaluator (unbounded ints, C precedence, left associativity, context-then-constants lookup; itself cross-checked against Python's parser) and with a fresh Expression object; evaluations that must fail (unbound identifier, division by zero) are the injected faults and must raise and leave no trace. The history clause is decided by the search; single-evaluation precedence rides on the per-step oracle and is sampled, not enumerated.",
   note="Trusts: the reference evaluator; unspecified cases (negative operands of / and %, negative or >256-bit shifts, magnitudes above 2**512) are compared only reused-vs-fresh; lengths foldable at load time are not re-evaluated after constant redefinition."),
 "C05": dict(engine="E-CFG", cat="exploration", ref="4.1",
   technique="deterministic simulation: seeded reconfiguration histories (endianness switches at arbitrary points between parses/dumps of scalars, arrays and pre-loaded compiled/interpreted structures) judged by reference codecs under the model's current endianness; truncated inputs as faults",
   text="Seeded search over (1-2 cstruct objects, flat packed structures loaded before the history as compiled and interpreted twins, histories of 10-40 ops with endianness switches). The model holds only the current endianness per object; every parse must give the reference value and every dump the reference bytes (two's complement / IEEE-754 / raw / UTF-16 / minimal LEB128 / bit-field unit packing), for all 14 integer types, their aliases, floats, char, wchar, LEB128, arrays created before and after switches, and both structure readers. The reconfiguration clause is decided by the search; the codec clause rides on the per-step oracle.",
   note="Trusts: reference codecs (int.from_bytes/to_bytes, struct, hand-written LEB128); alias meanings written down in the harness; @ and = excluded; no NaN payloads; packed layout only."),
 "C11": dict(engine="E-UNION", cat="exploration", ref="4.5",
   technique="deterministic simulation: seeded assignment histories over the several views of one union buffer (members, nested structures through proxies, folded anonymous fields, nested unions) checked after every step against a byte-array reference model",
   text="Seeded search over (fixed-size union definitions with scalar/array/enum/pointer members, nested and anonymous structs to depth 3, nested unions, packed or aligned, optionally inside a holder struct; initial content by parse/default/keyword construction; histories of 1-12 assignments, dumps and re-parses). Model = one bytearray. After every op each member must observe what a stand-alone parse of its type from the model bytes observes, dumps() must equal the model on every byte that carries data in some member, size and consumed length must match the largest member rounded to alignment. One recorded known finding (union dumped from its largest member only) is recognised structurally and reported as KNOWN-FINDING.",
   note="Trusts: field offsets/alignment from the library's field table (C04), MemberType.dumps for the encoding of an assigned value (C05); interpreted readers only; no floats/wchar/flags/bit-field assignments (NaN payloads, invalid UTF-16, C12, C06); padding of the rewritten member may become zero."),
 "C18": dict(engine="E-BUILD", cat="exploration", ref="4.10",
   technique="deterministic simulation: seeded histories of add_field / start_update / commit steps with uses of the intermediate class in between, compared with the one-piece declaration (layout signature incl. generated reader source, and behaviour on inputs)",
   text="Seeded search over (field sequences from the full generator, optional pointer-to-self, align, compiled; splits into single adds and batches, extra commits, and parse/default/dumps/len/== uses of the intermediate class between steps so that cached sizes, generated methods and compiled readers of intermediate states are live). Three routes must agree: the parser's pre-register/extend/commit path for top-level structs, the one-piece typedef struct, and the add_field history: identical layout signature (size, alignment, dynamic, compiled flag, fields, offsets, generated reader source) and identical behaviour (parse values and sizes, consumed bytes, dumps, default instance, ==, hash, bool, errors on truncated input).",
   note="Trusts: anonymous type names normalised; instances created from intermediate classes not constrained; route B skipped for self-referential cases."),
 "C13": dict(engine="E-LOAD", cat="exploration", ref="4.6",
   technique="deterministic simulation: seeded histories of load()/add_type() calls on the persistent typedef and constant tables (dependency-respecting reorderings, groupings into several load() calls, alias re-declarations, cyclic/dangling alias chains with a bounded-progress check) compared with the canonical single-load history; comment/white-space noise as payload",
   text="Seeded search over (3-10 definition fragments with a dependency DAG; perturbed history = random topological order x random grouping into load() calls x noise at token boundaries x alias operations between loads). The world built by the perturbed history (layout signatures, enum members, constants, parse behaviour on sample inputs, identity of all aliases) must equal the canonical world; every declared name must resolve; all names of one typedef struct and all built-in synonyms must be the very same type object; re-declaring an alias is accepted for the same target under any spelling and rejected otherwise without changing the table; cyclic and dangling aliases must produce ResolveError (through resolve, attribute access, sizeof and field use) within 5 s. One recorded known finding (newline inside an enum member) is recognised by re-running without those newlines.",
   note="Trusts: canonical single-load history as reference (differential); noise is never placed inside brackets, on #define lines or between a field name and '['; anonymous type names normalised."),
}
PENDING = {'C05': 'check not built yet in this revision (planned engine, DESIGN 4); not claimed until its check exists', 'C09': 'check not built yet in this revision (planned engine, DESIGN 4); not claimed until its check exists', 'C10': 'check not built yet in this revision (planned engine, DESIGN 4); not claimed until its check exists', 'C11': 'check not built yet in this revision (planned engine, DESIGN 4); not claimed until its check exists', 'C13': 'check not built yet in this revision (planned engine, DESIGN 4); not claimed until its check exists', 'C14': 'check not built yet in this revision (planned engine, DESIGN 4); not claimed until its check exists', 'C15': 'check not built yet in this revision (planned engine, DESIGN 4); not claimed until its check exists', 'C16': 'check not built yet in this revision (planned engine, DESIGN 4); not claimed until its check exists', 'C17': 'check not built yet in this revision (planned engine, DESIGN 4); not claimed until its check exists', 'C18': 'check not built yet in this revision (planned engine, DESIGN 4); not claimed until its check exists'}

def main():
    checks = []
    for pid, c in sorted(CHECKS.items()):
        checks.append({
          "property_id": pid,
          "quick_cmd": f"./check {pid} --tier quick",
          "thorough_cmd": f"./check {pid} --tier thorough",
          "evidence_file": f"/verif/evidence/{pid}.json",
          "replay_cmd_template": f"./check {pid} --replay {{path}}",
          "engine": c["engine"],
          "level_claimed": {"category": c["cat"], "text": c["text"], "design_ref": f"DESIGN.md {c['ref']}"},
          "level_note": c["note"],
          "technique": c["technique"],
        })
    na = [{"property_id": k, "reason": v} for k, v in sorted({**NA, **PENDING}.items()) if k not in CHECKS]
    engines = {}
    for pid, c in CHECKS.items():
        engines.setdefault(c["engine"], []).append(pid)
    m = {
      "version": 1,
      "setup_cmd": "/venv/bin/python -S -c \"import sys; sys.path.insert(0,'/verif'); from sim import core; core.import_library(); print('ok')\"",
      "hooks": {"guard": "DISSECT_CSTRUCT_VERIF", "enable": "no hook exists: every seam (stream argument, thread trace function, module caches) is reachable without source changes; checks import /repo's working tree directly",
                "baseline_off_cmd": "cd /repo && /venv/bin/python -m pytest -ra -q -p no:cacheprovider --timeout=900 --continue-on-collection-errors",
                "source_commits": [], "add_only": True},
      "engines": [{"name": n, "path": f"/verif/sim/props/{sorted(p)[0].lower()}.py", "serves_properties": sorted(p),
                   "kind_free_text": "deterministic simulation with fault injection (seeded, replayable)"} for n, p in sorted(engines.items())],
      "checks": checks,
      "not_applicable": na,
      "notes": "Every check: ./check <ID> --tier quick|thorough ; replay: ./check <ID> --replay <file>. VERIF_SEED selects the seed (default 0). Library is imported from VERIF_REPO (default /repo) working tree, nothing is installed. known_findings.json lists fixed defects (regression cases) and recorded findings.",
    }
    json.dump(m, open(os.path.join(V, "MANIFEST.json"), "w"), indent=1)
    print("checks:", [c["property_id"] for c in checks], "na:", [n["property_id"] for n in na])

if __name__ == "__main__":
    import sys
    sys.path.insert(0, os.path.dirname(os.path.abspath(__file__)))
    main()
